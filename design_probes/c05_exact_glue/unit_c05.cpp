#include "prelude_q.h"
Number pool[8]; unsigned pool_n; Integer ipool[8]; unsigned ipool_n; RCPNumber Nan, ComplexInf; Number nan_o, zoo_o;
#include "c05.inc"
extern "C" void h_divint(void)
{
  nan_o.kind = K_NAN; zoo_o.kind = K_ZOO; Nan = &nan_o; ComplexInf = &zoo_o; pool_n = 0; ipool_n = 0;
  int a, b; __CPROVER_assume(-12 <= a && a <= 12 && -12 <= b && b <= 12);
  Integer *A = mk_int(a), *B = mk_int(b);
  RCPNumber r = A->divint(*B);
  if (b == 0) __CPROVER_assert(r->kind == (a == 0 ? K_NAN : K_ZOO), "C05.divint.post: x/0 is zoo, 0/0 is nan");
  else {
    __CPROVER_assert(r->num * b == a * r->den && r->den > 0, "C05.divint.post: value is a/b, positive denominator");
    __CPROVER_assert((r->kind == K_INTEGER) == (r->den == 1), "C05.divint.post: Integer exactly when the denominator is 1");
    __CPROVER_assert(gcd_(r->num, r->den) == 1, "C05.divint.post: lowest terms");
  }
}
extern "C" void h_pow_negint(void)
{
  nan_o.kind = K_NAN; zoo_o.kind = K_ZOO; Nan = &nan_o; ComplexInf = &zoo_o; pool_n = 0; ipool_n = 0;
  int a, e; __CPROVER_assume(-3 <= a && a <= 3 && -2 <= e && e <= -1);
  Integer *A = mk_int(a), *E = mk_int(e);
  RCPNumber r = A->pow_negint(*E);
  int p = 1; for (int k = 0; k < 2; k++) if (k < -e) p = p * a;
  if (a != 0) __CPROVER_assert(r->num * p == r->den && r->den > 0 && ((r->kind == K_INTEGER) == (r->den == 1)), "C05.pow_negint.post: value is 1/a^|e|, normalised");
}

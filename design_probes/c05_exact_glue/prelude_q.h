// opaque exact arithmetic: integer_class is a bounded machine integer treated as mathematical (no overflow in range);
// rational_class is {num, den} with canonicalize's contract: gcd(|num|,den) == 1, den > 0. GMP semantics are ASSUMED.
struct SymEngineException { SymEngineException(const char *m) {} };
typedef int integer_class;
struct rational_class { int num, den; bool canon; rational_class() { num = 0; den = 1; canon = true; }
  rational_class(int n, int d) { __CPROVER_assert(d != 0, "C05.callee_pre: rational_class(n, d) requires d != 0 (GMP: division by zero)"); num = n; den = d; canon = false; } };
inline int get_num(const rational_class &q) { return q.num; }
inline int get_den(const rational_class &q) { return q.den; }
static int gcd_(int a, int b) { if (a < 0) a = -a; if (b < 0) b = -b; for (int g = 16; g >= 1; g--) if (a % g == 0 && b % g == 0) return g; return 1; }
inline void canonicalize(rational_class &q) { int g = gcd_(q.num, q.den); if (q.den < 0) g = -g; q.num = q.num / g; q.den = q.den / g; q.canon = true; }
inline int mp_sign(int j) { return j > 0 ? 1 : (j < 0 ? -1 : 0); }
inline int mp_abs(int j) { return j < 0 ? -j : j; }
template <class T> T &std_move(T &t) { return t; }
enum Kind { K_INTEGER, K_RATIONAL, K_NAN, K_ZOO };
struct Integer; struct Number { int kind; int num, den; int i; Integer *as_int; };
typedef Number *RCPNumber;
extern Number pool[8]; extern unsigned pool_n; extern RCPNumber Nan, ComplexInf;

inline RCPNumber mk_Rational(rational_class &q) { RCPNumber r = &pool[pool_n]; pool_n = pool_n + 1; r->kind = K_RATIONAL; r->num = q.num; r->den = q.den;
  __CPROVER_assert(q.canon && q.den != 1, "C05/C03 Rational::is_canonical at construction"); return r; }
inline bool is_a_Integer(const Number &x) { return x.kind == K_INTEGER; }
struct Integer : Number { RCPNumber divint(const Integer &other) const; RCPNumber pow_negint(const Integer &other) const; RCPNumber powint(const Integer &e) const; Integer *neg() const; };
extern Integer ipool[8]; extern unsigned ipool_n;
inline Integer *mk_int(int v) { Integer *r = &ipool[ipool_n]; ipool_n = ipool_n + 1; r->kind = K_INTEGER; r->num = v; r->den = 1; r->i = v; r->as_int = r; return r; }
inline RCPNumber integer(int v) { return mk_int(v); }
inline Integer &as_Integer(const Number &x) { return *(x.as_int); }
inline Integer *Integer::neg() const { return mk_int(-i); }
// assumed contract of powint for a non-negative exponent that fits: exact power (bounded harness range)
inline RCPNumber Integer::powint(const Integer &e) const { int r = 1; for (int k = 0; k < 3; k++) if (k < e.i) r = r * i; return mk_int(r); }
struct Rational { static RCPNumber from_mpq(rational_class &i); };

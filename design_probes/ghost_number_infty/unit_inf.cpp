#include "prelude_inf.h"
Number pool[8]; unsigned pool_n; Infty ipool[4]; unsigned ipool_n; RCPNumber Nan, minus_one;
#include "inf.inc"
// extended-number semantics of the property statement, as a spec function on (kind, sgn)
// result encoding: kind + sgn (for K_INF sgn is the direction)
static void spec_add(const Number &a, const Number &b, int &k, int &s) {          // a is an Infty
  if (b.kind == K_NAN) { k = K_NAN; s = 0; return; }
  if (b.kind == K_INF) { if (a.sgn == b.sgn && a.sgn != 0) { k = K_INF; s = a.sgn; } else { k = K_NAN; s = 0; } return; }
  k = K_INF; s = a.sgn;
}
static void spec_div(const Number &a, const Number &b, int &k, int &s) {          // a is an Infty
  if (b.kind == K_NAN || b.kind == K_INF) { k = K_NAN; s = 0; return; }
  if (b.kind == K_FIN && b.sgn == 0) { k = K_INF; s = 0; return; }               // oo/0 = zoo
  k = K_INF; s = a.sgn * b.sgn;
}
extern "C" void h_inf(void)
{
  Number nan_o, m1, dirA, B, dirB; Infty A, Binf;
  nan_o.kind = K_NAN; nan_o.sgn = 0; Nan = &nan_o; m1.kind = K_FIN; m1.sgn = -1; minus_one = &m1; pool_n = 0; ipool_n = 0;
  __CPROVER_assume(dirA.sgn >= -1 && dirA.sgn <= 1); dirA.kind = K_FIN; A.kind = K_INF; A._direction = &dirA; A.sgn = dirA.sgn; A.self = &A; A.as_inf = &A;
  int bk; __CPROVER_assume(bk == K_FIN || bk == K_INF || bk == K_NAN);            // real or nan operand (complex: not fixed by the statement)
  Number *other;
  if (bk == K_INF) { __CPROVER_assume(dirB.sgn >= -1 && dirB.sgn <= 1); dirB.kind = K_FIN; Binf.kind = K_INF; Binf._direction = &dirB; Binf.sgn = dirB.sgn; Binf.self = &Binf; Binf.as_inf = &Binf; other = &Binf; }
  else { B.kind = bk; __CPROVER_assume(B.sgn >= -1 && B.sgn <= 1); if (bk == K_NAN) B.sgn = 0; other = &B; }
  int k, s;
  RCPNumber r = A.add(*other); spec_add(A, *other, k, s);
  __CPROVER_assert(r->kind == k && (k != K_INF || r->sgn == s), "C06.Infty.add.post: extended-number rule table");
  RCPNumber q = A.div(*other); spec_div(A, *other, k, s);
  __CPROVER_assert(q->kind == k && (k != K_INF || q->sgn == s), "C06.Infty.div.post: extended-number rule table");
}

// ghost-valued numbers for the oo/nan rules. A Number is {kind, sgn}: finite numbers carry sgn in {-1,0,1};
// an Infty carries a direction Number (sgn -1: -oo, +1: +oo, 0: zoo); NaN; Complex (finite, non-real).
enum Kind { K_FIN, K_INF, K_NAN, K_CPLX };
struct NotImplementedError { NotImplementedError(const char *m) {} };
struct Number;
typedef Number *RCPNumber;
struct Infty; struct Number { int kind; int sgn; RCPNumber dir; Infty *as_inf;
  bool is_zero() const { return kind == K_FIN && sgn == 0; }
  bool is_positive() const { return kind == K_FIN && sgn > 0; }
  bool is_negative() const { return kind == K_FIN && sgn < 0; }
  RCPNumber mul(const Number &o) const;        // only used on directions (finite signs): sign product
};
extern Number pool[8]; extern unsigned pool_n;
inline RCPNumber fresh() { RCPNumber r = &pool[pool_n]; pool_n = pool_n + 1; return r; }
inline RCPNumber Number::mul(const Number &o) const { RCPNumber r = fresh(); r->kind = K_FIN; r->sgn = sgn * o.sgn; r->dir = 0; return r; }
inline bool eq(const Number &a, const Number &b) { return a.kind == b.kind && a.sgn == b.sgn; }   // directions are canonical signs
inline bool is_a_Infty(const Number &x) { return x.kind == K_INF; }
inline bool is_a_Complex_(const Number &x) { return x.kind == K_CPLX; }
extern RCPNumber Nan, minus_one;
struct Infty : Number {
  RCPNumber _direction; RCPNumber self;
  RCPNumber get_direction() const { return _direction; }
  RCPNumber rcp_from_this_Number() const { return self; }
  bool is_unsigned_infinity() const; bool is_positive_infinity() const; bool is_negative_infinity() const;
  RCPNumber add(const Number &other) const; RCPNumber mul(const Number &other) const; RCPNumber div(const Number &other) const;
};
inline Infty &as_Infty(const Number &x) { return *(x.as_inf); }
extern Infty ipool[4]; extern unsigned ipool_n;
inline RCPNumber mk_Infty(RCPNumber d) { Infty *r = &ipool[ipool_n]; ipool_n = ipool_n + 1; r->kind = K_INF; r->_direction = d; r->sgn = d->sgn; r->self = r; r->as_inf = r; return r; }
inline RCPNumber infty(RCPNumber d) { return mk_Infty(d); }
inline RCPNumber infty(int k) { RCPNumber d = fresh(); d->kind = K_FIN; d->sgn = k; return mk_Infty(d); }

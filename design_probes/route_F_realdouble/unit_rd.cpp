typedef unsigned long hash_t;
enum TypeID {
#define SYMENGINE_INCLUDE_ALL
#define SYMENGINE_ENUM(type, Class) type,
#include "/repo/symengine/type_codes.inc"
#undef SYMENGINE_ENUM
  TypeID_Count
};
#define SYMENGINE_ASSERT(c) __CPROVER_assert((c), "SYMENGINE_ASSERT");
#include "hc.inc"
inline void hash_combine_double(hash_t &seed, const double &v) { hash_combine_impl(seed, v); }
struct Basic { TypeID type_code_; };
struct RealDouble : Basic { double i; hash_t __hash__() const; bool __eq__(const Basic &o) const; int compare(const Basic &o) const; };
inline bool is_a_RealDouble(const Basic &b) { return b.type_code_ == SYMENGINE_REAL_DOUBLE; }
inline RealDouble &as_RealDouble(const Basic &b) { return *(RealDouble *)&b; }
#include "rd.inc"
extern "C" void h_rd(void)
{
  RealDouble a, b, c; a.type_code_ = SYMENGINE_REAL_DOUBLE; b.type_code_ = SYMENGINE_REAL_DOUBLE; c.type_code_ = SYMENGINE_REAL_DOUBLE;
  bool e = a.__eq__(b);
  __CPROVER_assert(!e || a.__hash__() == b.__hash__(), "C01.RealDouble.eq_implies_hash");
  int ab = a.compare(b), ba = b.compare(a), bc = b.compare(c), ac = a.compare(c);
  __CPROVER_assert(ab == -1 || ab == 0 || ab == 1, "C02.RealDouble.compare.range");
  __CPROVER_assert((ab == 0) == e, "C02.RealDouble.compare.zero_iff_eq");
  __CPROVER_assert(ab == -ba, "C02.RealDouble.compare.antisym");
  __CPROVER_assert(!(ab <= 0 && bc <= 0) || ac <= 0, "C02.RealDouble.compare.trans");
}

#include <stddef.h>
#include <stdbool.h>
#include <iso646.h>
#define K 32u
unsigned g_r, g_q, g_k, g_nnz;   /* ghost: arbitrary-but-fixed row/position/pointer index; g_nnz = length of j_ */
#define IN_ROW(r,q) ((r) < row_ && p_[(r)] <= (q) && (q) + 1 < p_[(r) + 1])

#define ARR_PRE __CPROVER_requires(row_ < K && g_nnz < K && g_r < K && g_q < K && g_k < K) \
  __CPROVER_requires(__CPROVER_is_fresh(p_, (row_ + 1) * sizeof(unsigned))) \
  __CPROVER_requires(__CPROVER_is_fresh(j_, (g_nnz + 1) * sizeof(unsigned)))
#define P_BOUNDED __CPROVER_forall { unsigned k; (k < K) ==> ((k <= row_) ==> p_[k] <= g_nnz) }
bool csr_has_duplicates(const unsigned *p_, const unsigned *j_, unsigned row_)
ARR_PRE
__CPROVER_requires(P_BOUNDED)
__CPROVER_ensures(!__CPROVER_return_value ==> (IN_ROW(g_r, g_q) ==> j_[g_q] != j_[g_q + 1]))
__CPROVER_ensures(__CPROVER_return_value ==> __CPROVER_exists { unsigned r; r < K && __CPROVER_exists { unsigned q; q < K && IN_ROW(r, q) && j_[q] == j_[q + 1] } })
__CPROVER_assigns()
{
    for (unsigned i = 0; i < row_; i++)
    __CPROVER_assigns(i)
    __CPROVER_loop_invariant(i <= row_)
    __CPROVER_loop_invariant((g_r < i && IN_ROW(g_r, g_q)) ==> j_[g_q] != j_[g_q + 1])
    __CPROVER_decreases(row_ - i)
    {
        for (unsigned j = p_[i]; j + 1 < p_[i + 1]; j++)
        __CPROVER_assigns(j)
        __CPROVER_loop_invariant(p_[i] <= j && j <= g_nnz)
        __CPROVER_loop_invariant((g_r == i && IN_ROW(g_r, g_q) && g_q < j) ==> j_[g_q] != j_[g_q + 1])
        __CPROVER_decreases(g_nnz - j)
        {
            if (j_[j] == j_[j + 1])
                return true;
        }
    }
    return false;
}
bool csr_has_sorted_indices(const unsigned *p_, const unsigned *j_, unsigned row_)
ARR_PRE
__CPROVER_requires(P_BOUNDED)
__CPROVER_ensures(__CPROVER_return_value ==> (IN_ROW(g_r, g_q) ==> j_[g_q] <= j_[g_q + 1]))
__CPROVER_ensures(!__CPROVER_return_value ==> __CPROVER_exists { unsigned r; r < K && __CPROVER_exists { unsigned q; q < K && IN_ROW(r, q) && j_[q] > j_[q + 1] } })
__CPROVER_assigns()
{
    for (unsigned i = 0; i < row_; i++)
    __CPROVER_assigns(i)
    __CPROVER_loop_invariant(i <= row_)
    __CPROVER_loop_invariant((g_r < i && IN_ROW(g_r, g_q)) ==> j_[g_q] <= j_[g_q + 1])
    __CPROVER_decreases(row_ - i)
    {
        for (unsigned jj = p_[i]; jj + 1 < p_[i + 1]; jj++)
        __CPROVER_assigns(jj)
        __CPROVER_loop_invariant(p_[i] <= jj && jj <= g_nnz)
        __CPROVER_loop_invariant((g_r == i && IN_ROW(g_r, g_q) && g_q < jj) ==> j_[g_q] <= j_[g_q + 1])
        __CPROVER_decreases(g_nnz - jj)
        {
            if (j_[jj] > j_[jj + 1])
                return false;
        }
    }
    return true;
}
bool csr_has_canonical_format(const unsigned *p_, const unsigned *j_, unsigned row_)
ARR_PRE
__CPROVER_requires(p_[row_] == g_nnz)          /* CSRMatrix::is_canonical checks j_.size() == p_[row_] before the call */
__CPROVER_ensures(__CPROVER_return_value ==> ((g_k < row_ ==> p_[g_k] <= p_[g_k + 1]) && (IN_ROW(g_r, g_q) ==> j_[g_q] < j_[g_q + 1])))
__CPROVER_ensures(!__CPROVER_return_value ==> (__CPROVER_exists { unsigned k; k < K && k < row_ && p_[k] > p_[k + 1] } || __CPROVER_exists { unsigned r; r < K && __CPROVER_exists { unsigned q; q < K && IN_ROW(r, q) && j_[q] >= j_[q + 1] } }))
__CPROVER_assigns()
{
    for (unsigned i = 0; i < row_; i++)
    __CPROVER_assigns(i)
    __CPROVER_loop_invariant(i <= row_)
    __CPROVER_loop_invariant(__CPROVER_forall { unsigned k; (k < K) ==> ((k < i) ==> p_[k] <= p_[k + 1]) })
    __CPROVER_decreases(row_ - i)
    {
        if (p_[i] > p_[i + 1])
            return false;
    }

    return csr_has_sorted_indices(p_, j_, row_)
           and not csr_has_duplicates(p_, j_, row_);
}

void h_dup(void){ const unsigned *p,*j; unsigned row; csr_has_duplicates(p,j,row); }
void h_srt(void){ const unsigned *p,*j; unsigned row; csr_has_sorted_indices(p,j,row); }
void h_can(void){ const unsigned *p,*j; unsigned row; csr_has_canonical_format(p,j,row); }

#include <stddef.h>
#include <stdbool.h>
#include <iso646.h>
#define MAXN 1000000u
/* body text below is verbatim from sparse_matrix.cpp; signature rewritten (std::vector<unsigned>& -> unsigned*), loop contracts injected */
bool csr_has_sorted_indices(const unsigned *p_, const unsigned *j_, unsigned row_, unsigned nnz_)
__CPROVER_requires(row_ < MAXN && nnz_ < MAXN)
__CPROVER_requires(__CPROVER_is_fresh(p_, (row_ + 1) * sizeof(unsigned)))
__CPROVER_requires(__CPROVER_is_fresh(j_, (nnz_ + 1) * sizeof(unsigned)))
__CPROVER_requires(__CPROVER_forall { unsigned k; (k <= row_) ==> p_[k] <= nnz_ })
__CPROVER_ensures(__CPROVER_return_value == (__CPROVER_forall { unsigned r; (r < row_) ==> (__CPROVER_forall { unsigned q; (p_[r] <= q && q + 1 < p_[r + 1]) ==> j_[q] <= j_[q + 1] }) }))
__CPROVER_assigns()
{
    for (unsigned i = 0; i < row_; i++)
    __CPROVER_assigns(i)
    __CPROVER_loop_invariant(i <= row_)
    __CPROVER_loop_invariant(__CPROVER_forall { unsigned r; (r < i) ==> (__CPROVER_forall { unsigned q; (p_[r] <= q && q + 1 < p_[r + 1]) ==> j_[q] <= j_[q + 1] }) })
    __CPROVER_decreases(row_ - i)
    {
        for (unsigned jj = p_[i]; jj + 1 < p_[i + 1]; jj++)
        __CPROVER_assigns(jj)
        __CPROVER_loop_invariant(p_[i] <= jj && (jj <= p_[i+1] || p_[i] >= p_[i+1]))
        __CPROVER_loop_invariant(__CPROVER_forall { unsigned q; (p_[i] <= q && q < jj) ==> j_[q] <= j_[q + 1] })
        __CPROVER_decreases(p_[i + 1] - jj)
        {
            if (j_[jj] > j_[jj + 1])
                return false;
        }
    }
    return true;
}
void h(void){ const unsigned *p,*j; unsigned row,nnz; csr_has_sorted_indices(p,j,row,nnz); }

#include <stddef.h>
#include <stdbool.h>
#include <iso646.h>
#define MAXN 1000000u
unsigned g_r, g_q; /* ghost indices: arbitrary but fixed */
#define IN_ROW(r,q) ((r) < row_ && p_[(r)] <= (q) && (q) + 1 < p_[(r) + 1])
bool csr_has_sorted_indices(const unsigned *p_, const unsigned *j_, unsigned row_, unsigned nnz_)
__CPROVER_requires(row_ < MAXN && nnz_ < MAXN && g_r < MAXN && g_q < MAXN)
__CPROVER_requires(__CPROVER_is_fresh(p_, (row_ + 1) * sizeof(unsigned)))
__CPROVER_requires(__CPROVER_is_fresh(j_, (nnz_ + 1) * sizeof(unsigned)))
__CPROVER_requires(__CPROVER_forall { unsigned k; (k <= row_) ==> p_[k] <= nnz_ })
/* soundness: true result => every adjacent pair in every row is ordered (ghost pair stands for all pairs) */
__CPROVER_ensures(__CPROVER_return_value ==> (IN_ROW(g_r, g_q) ==> j_[g_q] <= j_[g_q + 1]))
__CPROVER_assigns()
{
    for (unsigned i = 0; i < row_; i++)
    __CPROVER_assigns(i)
    __CPROVER_loop_invariant(i <= row_)
    __CPROVER_loop_invariant((g_r < i && IN_ROW(g_r, g_q)) ==> j_[g_q] <= j_[g_q + 1])
    __CPROVER_decreases(row_ - i)
    {
        for (unsigned jj = p_[i]; jj + 1 < p_[i + 1]; jj++)
        __CPROVER_assigns(jj)
        __CPROVER_loop_invariant(p_[i] <= jj && jj <= nnz_)
        __CPROVER_loop_invariant((g_r == i && IN_ROW(g_r, g_q) && g_q < jj) ==> j_[g_q] <= j_[g_q + 1])
        __CPROVER_decreases(nnz_ - jj)
        {
            if (j_[jj] > j_[jj + 1])
                return false;
        }
    }
    return true;
}
void h(void){ const unsigned *p,*j; unsigned row,nnz; csr_has_sorted_indices(p,j,row,nnz); }

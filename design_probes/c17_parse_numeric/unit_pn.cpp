#include "prelude_str.h"
int errno_;
#include "pn.inc"
extern "C" void h_pn(void)
{
  std::string e; unsigned n; __CPROVER_assume(1 <= n && n <= SCAP); e.n = n;
  long dec = 0;
  for (unsigned i = 0; i < SCAP; i++) { if (i < n) { __CPROVER_assume(e.d[i] >= '0' && e.d[i] <= '9'); dec = dec * 10 + (e.d[i] - '0'); } else e.d[i] = 0; }
  e.d[SCAP] = 0;
  Parser p; RCPBasic r = p.parse_numeric(e);
  __CPROVER_assert(r.kind == 0 && r.ival == dec, "C17.parse_numeric.decimal: a digit string is the Integer with its base-10 value");
}

// stubs: std::string (fixed capacity, NUL-terminated), strtol per ISO C 7.22.1.4, errno, fast_float::from_chars (opaque), ghost results
#ifndef SCAP
#define SCAP 8
#endif
typedef unsigned long size_t;
#define ERANGE 34
extern int errno_;
#define errno errno_
namespace std {
struct string {
  mutable char d[SCAP + 1]; size_t n;
  static const size_t npos = (size_t)-1;
  const char *c_str() const { return &d[0]; }
  size_t length() const { return n; }
  size_t size() const { return n; }
  char operator[](size_t i) const { __CPROVER_assert(i <= n, "string index in bounds"); return d[i]; }
  size_t find_first_of(char c) const;
};
long strtol(const char *s, char **end, int base);
}
extern "C" size_t stub_find(const char *d, size_t n, char c) { for (size_t i = 0; i < n; i++) if (d[i] == c) return i; return (size_t)-1; }
inline size_t std::string::find_first_of(char c) const { return stub_find(d, n, c); }
static int digit_of(char c) { if (c >= '0' && c <= '9') return c - '0'; if (c >= 'a' && c <= 'z') return c - 'a' + 10; if (c >= 'A' && c <= 'Z') return c - 'A' + 10; return 99; }
// ISO C strtol, no leading whitespace/sign needed for the tokenizer's language but handled; overflow cannot occur for <= 8 digits
extern "C" long stub_strtol(const char *s, char **end, int base)
{
  unsigned i = 0; int neg = 0;
  if (s[i] == '+' || s[i] == '-') { neg = (s[i] == '-'); i++; }
  if (base == 0) { if (s[i] == '0') { if ((s[i + 1] == 'x' || s[i + 1] == 'X') && digit_of(s[i + 2]) < 16) { base = 16; i += 2; } else base = 8; } else base = 10; }
  else if (base == 16 && s[i] == '0' && (s[i + 1] == 'x' || s[i + 1] == 'X') && digit_of(s[i + 2]) < 16) i += 2;
  long v = 0; unsigned start = i;
  while (digit_of(s[i]) < base) { v = v * base + digit_of(s[i]); i++; }
  if (i == start) { *end = (char *)s; return 0; }
  *end = (char *)(s + i);
  return neg ? -v : v;
}
inline long std::strtol(const char *s, char **end, int base) { return stub_strtol(s, end, base); }
struct Res { int kind; long ival; };            // ghost result: kind 0 = Integer(ival), 1 = RealDouble (value not modelled), 2 = big Integer from string
typedef Res RCPBasic;
struct integer_class { int tag; integer_class(const std::string &s) { tag = 1; } };
inline RCPBasic integer(long l) { Res r; r.kind = 0; r.ival = l; return r; }
inline RCPBasic integer(const integer_class &c) { Res r; r.kind = 2; r.ival = 0; return r; }
inline RCPBasic real_double(double d) { Res r; r.kind = 1; r.ival = 0; return r; }
namespace fast_float { struct from_chars_result { const char *ptr; }; inline from_chars_result from_chars(const char *a, const char *b, double &d) { from_chars_result r; r.ptr = b; return r; } }
struct Parser { RCPBasic parse_numeric(const std::string &expr); };

typedef unsigned char uint8_t;
enum TypeID {
#define SYMENGINE_INCLUDE_ALL
#define SYMENGINE_ENUM(type, Class) type,
#include "/repo/symengine/type_codes.inc"
#undef SYMENGINE_ENUM
  TypeID_Count
};
#define SCAP 5
struct SerializationError { SerializationError(const char *m); };
bool may_throw;   // harness-computed: is an exception a permitted outcome for this input?
inline SerializationError::SerializationError(const char *m) { __CPROVER_assert(may_throw, "C20.throw_site: an exception is raised only for inputs the property allows to be rejected"); }
namespace std {
struct string { mutable char d[SCAP + 1]; unsigned long n; unsigned long size() const { return n; }
  char operator[](unsigned long i) const { __CPROVER_assert(i <= n, "string index in bounds"); return d[i]; }
  struct iterator { char *p; iterator &operator++() { p = p + 1; return *this; } iterator operator++(int) { iterator o; o.p = p; p = p + 1; return o; } bool operator<(const iterator &o) const { return p < o.p; } char operator*() const { return *p; } };
  iterator begin() const { iterator i; i.p = &d[0]; return i; } iterator end() const { iterator i; i.p = &d[0] + n; return i; } };
inline bool isdigit(char c) { return c >= '0' && c <= '9'; }
}
struct integer_class { bool built; integer_class() { built = false; } integer_class(const std::string &s); };
struct Archive { uint8_t next_byte; std::string next_str; void operator()(uint8_t &i) { i = next_byte; } void operator()(std::string &s) { s = next_str; } };
static bool wellformed(const std::string &s) { if (s.n == 0) return false; unsigned long k = 0; if (s.d[0] == '-') k = 1; if (k == s.n) return false; for (unsigned long i = 0; i < SCAP; i++) if (i >= k && i < s.n && !(s.d[i] >= '0' && s.d[i] <= '9')) return false; return true; }
bool ctor_pre_ok = true;
inline integer_class::integer_class(const std::string &s) { built = true; if (!wellformed(s)) ctor_pre_ok = false; }   // GMP's contract: the string must be -?[0-9]+
#include "c20.inc"
extern "C" void h_typeid(void)
{
  Archive ar; TypeID t = (TypeID)0; may_throw = (ar.next_byte >= TypeID_Count);
  load_typeid(ar, t);
  __CPROVER_assert((int)t < (int)TypeID_Count && (int)t == (int)ar.next_byte, "C20.load_typeid.post: only in-range type codes are returned, unchanged");
  __CPROVER_assert(!may_throw, "C20.load_typeid.post: out-of-range bytes never return normally");
}
extern "C" void h_loadint(void)
{
  Archive ar; __CPROVER_assume(ar.next_str.n <= SCAP); ar.next_str.d[SCAP] = 0; ctor_pre_ok = true;
  may_throw = !wellformed(ar.next_str);
  integer_class x;
  load_helper(ar, x);
  __CPROVER_assert(ctor_pre_ok, "C20.load_helper.post: integer_class is only built from a well-formed decimal string");
}

// ghost-valued stub for assumption visitors: every Basic child carries a ghost real value `val` (small integers) and a flag `is_real`.
enum class tribool { indeterminate = -1, trifalse = 0, tritrue = 1 };
inline bool is_true(tribool x) { return x == tribool::tritrue; }
inline bool is_false(tribool x) { return x == tribool::trifalse; }
struct Assumptions;
struct PositiveVisitor; struct NegativeVisitor;
struct Basic { int val; bool is_real; tribool pos_answer, neg_answer; void accept(PositiveVisitor &v) const; };
struct Number { int val; bool is_positive() const { return val > 0; } bool is_negative() const { return val < 0; } };
typedef Number *RCPNumber; typedef Basic *RCPBasic;
struct umap_entry { RCPBasic first; RCPNumber second; };
#define MAXT 3
struct umap_basic_num { umap_entry e[MAXT]; unsigned n; unsigned size() const { return n; } umap_entry at(unsigned k) const { return e[k]; } };
struct Add { RCPNumber coef; umap_basic_num dict; RCPNumber get_coef() const { return coef; } umap_basic_num get_dict() const { return dict; } };
struct NegativeVisitor { Assumptions *a; NegativeVisitor(Assumptions *x) { a = x; } tribool apply(const Basic &b) { return b.neg_answer; } };
struct PositiveVisitor { tribool is_positive_; Assumptions *assumptions_; void bvisit(const Add &x); };
// contract of the recursive call (induction hypothesis): accept() leaves in is_positive_ an answer that is SOUND for the child
inline void Basic::accept(PositiveVisitor &v) const { v.is_positive_ = pos_answer; }

#include "tribool_x.h"
using namespace SymEngine;
// sound(t, P): a definite answer t is true of proposition P
static bool sound(tribool t, bool P) { return (!is_true(t) || P) && (!is_false(t) || !P); }
static bool valid(tribool t) { return t == tribool::indeterminate || t == tribool::trifalse || t == tribool::tritrue; }
extern "C" void h_tri(void)
{
  tribool a, b; int Pn, Qn; bool P = (Pn != 0), Q = (Qn != 0);
  __CPROVER_assume(valid(a) && valid(b) && sound(a, P) && sound(b, Q));
  __CPROVER_assert(valid(and_tribool(a, b)) && sound(and_tribool(a, b), P && Q), "C34.and_tribool.sound");
  __CPROVER_assert(valid(or_tribool(a, b)) && sound(or_tribool(a, b), P || Q), "C34.or_tribool.sound");
  __CPROVER_assert(valid(not_tribool(a)) && sound(not_tribool(a), !P), "C34.not_tribool.sound");
  __CPROVER_assert(valid(andwk_tribool(a, b)) && sound(andwk_tribool(a, b), P && Q), "C34.andwk_tribool.sound");
  __CPROVER_assert(valid(orwk_tribool(a, b)) && sound(orwk_tribool(a, b), P || Q), "C34.orwk_tribool.sound");
  __CPROVER_assert(is_true(and_tribool(a, b)) == (is_true(a) && is_true(b)), "C34.and_tribool.strongest_true");
  __CPROVER_assert(is_false(and_tribool(a, b)) == (is_false(a) || is_false(b)), "C34.and_tribool.strongest_false");
  __CPROVER_assert(is_true(or_tribool(a, b)) == (is_true(a) || is_true(b)), "C34.or_tribool.strongest_true");
  __CPROVER_assert(is_false(or_tribool(a, b)) == (is_false(a) && is_false(b)), "C34.or_tribool.strongest_false");
  __CPROVER_assert(tribool_from_bool(P) == (P ? tribool::tritrue : tribool::trifalse), "C34.tribool_from_bool");
}

#include "prelude_vis.h"
#include "add_rule.inc"
extern "C" void h_pos_add(void)
{
  Basic ch[MAXT]; Number cf[MAXT], c0; Add x; unsigned n; __CPROVER_assume(n <= MAXT); __CPROVER_assume(n >= 1);  // Add::is_canonical: non-empty dict (and >= 2 terms when coef is 0, below)
  x.coef = &c0; x.dict.n = n; __CPROVER_assume(-4 <= c0.val && c0.val <= 4);
  __CPROVER_assume(c0.val != 0 || n >= 2);
  int sum = c0.val; bool all_real = true;
  for (unsigned k = 0; k < MAXT; k++) {
    x.dict.e[k].first = &ch[k]; x.dict.e[k].second = &cf[k];
    __CPROVER_assume(-4 <= ch[k].val && ch[k].val <= 4 && -4 <= cf[k].val && cf[k].val <= 4 && cf[k].val != 0);
    // soundness of the children's answers (assumed contract of accept/apply): definite answers are true of the ghost value
    __CPROVER_assume(!is_true(ch[k].pos_answer) || (ch[k].is_real && ch[k].val > 0));
    __CPROVER_assume(!is_false(ch[k].pos_answer) || !(ch[k].is_real && ch[k].val > 0));
    __CPROVER_assume(!is_true(ch[k].neg_answer) || (ch[k].is_real && ch[k].val < 0));
    __CPROVER_assume(!is_false(ch[k].neg_answer) || !(ch[k].is_real && ch[k].val < 0));
    __CPROVER_assume(ch[k].pos_answer == tribool::indeterminate || ch[k].pos_answer == tribool::trifalse || ch[k].pos_answer == tribool::tritrue);
    __CPROVER_assume(ch[k].neg_answer == tribool::indeterminate || ch[k].neg_answer == tribool::trifalse || ch[k].neg_answer == tribool::tritrue);
    if (k < n) { sum += cf[k].val * ch[k].val; all_real = all_real && ch[k].is_real; }
  }
  PositiveVisitor v; v.assumptions_ = 0; v.is_positive_ = tribool::indeterminate;
  v.bvisit(x);
  __CPROVER_assert(!is_true(v.is_positive_) || (all_real && sum > 0), "C34.PositiveVisitor.Add.sound_true: a definite 'positive' is true of the sum");
  __CPROVER_assert(!is_false(v.is_positive_) || !(all_real && sum > 0), "C34.PositiveVisitor.Add.sound_false: a definite 'not positive' is true of the sum");
}

#include "prelude_ops.h"
static std::uvector g_primes;
static std::uvector &sieve_primes() { return g_primes; }
bool Sieve::_clear = true; unsigned Sieve::_sieve_size = 8;
static const unsigned PR[] = {2,3,5,7,11,13,17,19,23,29,31,37,41,43,47,53,59,61,67,71,73,79,83,89,97,101,103,107,109,113,127,131,137,139,149,151,157,163,167,173,179};
#define NPR 41
#define NMAX 30
// CONTRACT of Sieve::_extend used in place of its body (checked separately, bounded): INV in, INV out, not shrunk, covers limit
void Sieve::_extend(unsigned limit)
{
  unsigned n = g_primes.n, n1;
  __CPROVER_assert(10 <= n && n <= NMAX, "C33._extend.pre: INV");
  __CPROVER_assume(n <= n1 && n1 <= NMAX && PR[n1] > limit);
  for (unsigned k = 0; k < NMAX; k++) if (k >= n && k < n1) g_primes.d[k] = PR[k];
  g_primes.n = n1;
}
#include "ops.inc"
static void any_inv_state(void) { unsigned n; __CPROVER_assume(10 <= n && n <= NMAX); g_primes.n = n; for (unsigned k = 0; k < NMAX; k++) g_primes.d[k] = PR[k]; int c; Sieve::_clear = (c != 0); }
static void assert_inv(void) { __CPROVER_assert(10 <= g_primes.n && g_primes.n <= NMAX, "C33.INV.size"); for (unsigned k = 0; k < NMAX; k++) if (k < g_primes.n) __CPROVER_assert(g_primes.d[k] == PR[k], "C33.INV.prefix_of_primes"); }
extern "C" void h_generate(void)
{
  any_inv_state(); unsigned limit; __CPROVER_assume(limit < PR[NMAX - 1]);
  bool clr = Sieve::_clear;
  std::uvector out; out.n = 0;
  Sieve::generate_primes(out, limit);
  assert_inv();
  for (unsigned k = 0; k < NMAX; k++) { if (k < out.n) __CPROVER_assert(out.d[k] == PR[k] && PR[k] <= limit, "C33.generate_primes.post: output is the primes <= limit, in order"); }
  __CPROVER_assert(out.n < NPR && PR[out.n] > limit, "C33.generate_primes.post: no prime <= limit is missing");
  __CPROVER_assert(!clr || g_primes.n == 10, "C33.generate_primes.post: cache cleared iff _clear");
}
extern "C" void h_next_prime(void)
{
  any_inv_state(); Sieve::iterator it; unsigned idx, lim; __CPROVER_assume(idx <= NMAX - 2); it._index = idx; it._limit = lim;
  __CPROVER_assume(lim == 0 || lim < PR[NMAX - 1]);
  // history: the iterator has already produced PR[0..idx-1]; the cache may have been cleared meanwhile (idx may exceed size)
  __CPROVER_assume(idx >= 1);
  __CPROVER_assume(lim == 0 ? 2 * PR[idx - 1] < PR[NMAX - 1] : 1);
  unsigned p = it.next_prime();
  assert_inv();
  if (lim == 0 || PR[idx] <= lim) __CPROVER_assert(p == PR[idx] && it._index == idx + 1, "C33.next_prime.post: yields the next prime, no gap, no repeat");
  else __CPROVER_assert(p > lim, "C33.next_prime.post: a value above the limit once exhausted");
}

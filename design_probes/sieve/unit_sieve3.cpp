#include "prelude_sieve.h"
class Sieve {
public:
  static void _extend(unsigned limit);
  static unsigned _sieve_size; static bool _clear;
  static void clear();
  class iterator { public: unsigned _index; unsigned _limit; unsigned next_prime(); };
};
static std::uvector g_primes;
static std::uvector &sieve_primes() { return g_primes; }
bool Sieve::_clear = true; unsigned Sieve::_sieve_size = 8;
#include "body.inc"
static const unsigned PR[] = {2,3,5,7,11,13,17,19,23,29,31,37,41,43,47,53,59,61,67,71,73,79,83,89,97,101,103,107,109,113,127,131,137,139,149,151,157,163,167,173,179,181,191,193,197,199,211,223,227,229,233,239,241,251,257,263,269,271,277,281,283,293,307,311,313,317,331,337,347,349,353,359,367,373,379,383,389,397,401};
#define NPR (sizeof(PR)/sizeof(PR[0]))
#ifndef LMAX
#define LMAX 120
#endif
extern "C" void h_extend(void)
{
  for (unsigned limit = LMIN; limit <= LMAX; limit++) {
    unsigned n0 = N0;
    g_primes.n = n0; for (unsigned k = 0; k < 20; k++) g_primes.d[k] = PR[k];
    Sieve::_sieve_size = SEG;
    Sieve::_extend(limit);
    unsigned n1 = g_primes.n;
    __CPROVER_assert(n1 >= n0 && n1 < NPR, "C33.extend.post.size");
    for (unsigned k = 0; k < NPR - 1; k++) if (k < n1) __CPROVER_assert(g_primes.d[k] == PR[k], "C33.extend.post.prefix_of_primes");
    __CPROVER_assert(PR[n1] > limit, "C33.extend.post.covers_limit");
  }
}

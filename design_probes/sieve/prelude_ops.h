#define VCAP 40
namespace std {
struct uvector { unsigned d[VCAP]; unsigned n;
  unsigned size() const { return n; }
  unsigned &operator[](unsigned i) { __CPROVER_assert(i < n, "vector index in bounds"); return d[i]; }
  unsigned *begin() { return &d[0]; } unsigned *end() { return &d[0] + n; }
  void erase(unsigned *a, unsigned *b) { __CPROVER_assert(b == &d[0] + n && a >= &d[0] && a <= b, "stub: erase-to-end with begin()+k <= end()"); n = (unsigned)(a - &d[0]); }
  void push_back(unsigned v) { __CPROVER_assert(n < VCAP, "stub capacity"); d[n] = v; n = n + 1; }
  void reserve(long k) { __CPROVER_assert(k >= 0, "reserve of a non-negative count"); }
};
struct back_ins { uvector *v; };
inline back_ins back_inserter(uvector &v) { back_ins b; b.v = &v; return b; }
}
// std::upper_bound / std::copy are specified by their standard semantics (linear versions), loops in extern "C" helpers
extern "C" unsigned *stub_upper_bound(unsigned *a, unsigned *b, unsigned x) { unsigned *p = a; for (unsigned k = 0; k < VCAP; k++) if (p != b && !(x < *p)) p = p + 1; return p; }
extern "C" void stub_copy(unsigned *a, unsigned *b, std::uvector *out) { unsigned *p = a; for (unsigned k = 0; k < VCAP; k++) if (p != b) { out->push_back(*p); p = p + 1; } }
namespace std { inline unsigned *upper_bound(unsigned *a, unsigned *b, unsigned x) { return stub_upper_bound(a, b, x); }
inline void copy(unsigned *a, unsigned *b, back_ins o) { stub_copy(a, b, o.v); } }
class Sieve { public:
  static void _extend(unsigned limit); static unsigned _sieve_size; static bool _clear;
  static void generate_primes(std::uvector &primes, unsigned limit); static void clear(); static void set_sieve_size(unsigned size); static void set_clear(bool clear);
  class iterator { public: unsigned _index; unsigned _limit; unsigned next_prime(); };
};

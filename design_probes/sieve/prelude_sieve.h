// stubs: std::vector<unsigned> with fixed capacity, std::valarray<bool> + std::slice, floor/sqrt on unsigned, std::min
#ifndef VCAP
#define VCAP 200
#endif
#ifndef SEGCAP
#define SEGCAP 64
#endif
extern "C" void stub_slice_fill(bool *d, unsigned n, unsigned start, unsigned size, unsigned stride, bool v) { for (unsigned k = 0; k < size; k++) { unsigned idx = start + k * stride; __CPROVER_assert(idx < n, "valarray slice in bounds"); d[idx] = v; } }
extern "C" unsigned stub_isqrt(unsigned x) { unsigned r = 0; while ((r + 1) * (r + 1) <= x) r++; return r; }
namespace std {
struct uvector { unsigned d[VCAP]; unsigned n;
  unsigned size() const { return n; }
  unsigned &operator[](unsigned i) { __CPROVER_assert(i < n, "vector index in bounds"); return d[i]; }
  unsigned &back() { __CPROVER_assert(n > 0, "back() on non-empty vector"); return d[n - 1]; }
  unsigned *begin() { return d; } unsigned *end() { return d + n; }
  void erase(unsigned *a, unsigned *b) { __CPROVER_assert(b == d + n && a >= d && a <= b, "stub: erase-to-end only"); n = (unsigned)(a - d); }
  void push_back(unsigned v) { __CPROVER_assert(n < VCAP, "stub capacity"); d[n] = v; n = n + 1; }
};
struct slice { unsigned start, size, stride; slice(unsigned a, unsigned b, unsigned c) { start = a; size = b; stride = c; } };
struct bvalarray;
struct slice_ref { bvalarray *a; unsigned start, size, stride; void operator=(bool v); };
struct bvalarray { bool d[SEGCAP]; unsigned n;
  bvalarray(unsigned k) { __CPROVER_assert(k <= SEGCAP, "stub capacity"); n = k; }
  bool &operator[](unsigned i) { __CPROVER_assert(i < n, "valarray index in bounds"); return d[i]; }
  slice_ref operator[](slice s) { slice_ref r; r.a = this; r.start = s.start; r.size = s.size; r.stride = s.stride; return r; }
};
inline void slice_ref::operator=(bool v) { stub_slice_fill(a->d, a->n, start, size, stride, v); }
inline unsigned min(unsigned a, unsigned b) { return a < b ? a : b; }
// exact integer floor(sqrt(x)) for x < 2^24: the contract of std::floor(std::sqrt(double(x))) on exactly representable inputs
inline unsigned sqrt(unsigned x) { return stub_isqrt(x); }
inline unsigned floor(unsigned x) { return x; }
}

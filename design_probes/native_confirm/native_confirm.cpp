#include <symengine/basic.h>
#include <symengine/integer.h>
#include <symengine/rational.h>
#include <symengine/real_double.h>
#include <symengine/pow.h>
#include <symengine/logic.h>
#include <symengine/parser.h>
#include <iostream>
#include <cmath>
using namespace SymEngine;
int main(){
  auto z = integer(0), m1 = integer(-1);
  //try { auto r = z->powint(*m1); std::cout << "0.powint(-1) = " << r->__str__() << " type " << r->get_type_code() << "\n"; } catch (std::exception &e) { std::cout << "exc " << e.what() << "\n"; }
  try { auto r = pow(z, m1); std::cout << "pow(0,-1) = " << r->__str__() << "\n"; } catch (std::exception &e) { std::cout << "exc " << e.what() << "\n"; }
  //try { auto r = z->pow(*m1); std::cout << "0.pow(-1) = " << r->__str__() << "\n"; } catch (std::exception &e) { std::cout << "exc " << e.what() << "\n"; }
  auto a = real_double(0.0), b = real_double(-0.0);
  std::cout << "eq(0.0,-0.0)=" << eq(*a,*b) << " hash equal=" << (a->hash()==b->hash()) << "\n";
  auto n1 = real_double(std::nan("")), n2 = real_double(1.0);
  std::cout << "cmp(nan,1)=" << n1->__cmp__(*n2) << " cmp(1,nan)=" << n2->__cmp__(*n1) << " cmp(nan,nan')=" << n1->__cmp__(*real_double(std::nan(""))) << "\n";
  std::cout << "Le(1,1.0)=" << Le(integer(1), real_double(1.0))->__str__() << " Lt(1.0,1)=" << Lt(real_double(1.0), integer(1))->__str__() << "\n";
  std::cout << "parse(010)=" << parse("010")->__str__() << " parse(09)=" ; try { std::cout << parse("09")->__str__() << "\n"; } catch (std::exception &e) { std::cout << "exc " << e.what() << "\n"; }
}

#include <symengine/prime_sieve.h>
#include <vector>
#include <iostream>
using namespace SymEngine;
int main(int argc, char **argv){
  unsigned limit = argc > 1 ? atoi(argv[1]) : 600000;
  unsigned kb = argc > 2 ? atoi(argv[2]) : 32;
  Sieve::set_sieve_size(kb);
  std::vector<unsigned> p; Sieve::generate_primes(p, limit);
  std::vector<bool> c(limit + 1, true); std::vector<unsigned> q;
  for (unsigned i = 2; i <= limit; i++) { if (c[i]) { q.push_back(i); for (unsigned long j = (unsigned long)i * i; j <= limit; j += i) c[j] = false; } }
  std::cout << "limit=" << limit << " sieve_kb=" << kb << " got " << p.size() << " expected " << q.size() << (p == q ? " EQUAL" : " DIFFERENT") << "\n";
  for (size_t i = 0; i < p.size() && i < q.size(); i++) if (p[i] != q[i]) { std::cout << "first diff at " << i << ": " << p[i] << " vs " << q[i] << "\n"; break; }
}

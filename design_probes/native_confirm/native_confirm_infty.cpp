#include <symengine/basic.h>
#include <symengine/add.h>
#include <symengine/mul.h>
#include <symengine/pow.h>
#include <symengine/infinity.h>
#include <symengine/nan.h>
#include <symengine/real_double.h>
#include <iostream>
using namespace SymEngine;
#define T(e) try { std::cout << #e << " = " << (e)->__str__() << "\n"; } catch (std::exception &x) { std::cout << #e << " threw " << x.what() << "\n"; }
int main(){
  T(add(Inf, Nan)); T(add(Nan, Inf)); T(mul(Inf, Nan)); T(mul(Nan, Inf)); T(div(Inf, Nan)); T(div(Nan, Inf)); T(sub(Inf, Nan));
  T(Inf->add(*Nan)); T(Nan->add(*Inf)); T(Inf->div(*Nan)); T(Inf->mul(*Nan)); T(NegInf->div(*Nan));
  T(add(Inf, real_double(0.0/0.0))); T(div(Inf, real_double(0.0))); T(Inf->div(*real_double(-0.0)));
  T(add(ComplexInf, ComplexInf)); T(add(Inf, NegInf)); T(mul(integer(0), Inf)); T(mul(Inf, integer(0)));
}

// Ghost-valued stub of the Basic/Number interface; RCP<const T> is modelled as a raw pointer (operator-> overloading is not supported by the front end).
enum Kind { K_INT, K_RAT, K_DBL, K_INFP, K_INFN, K_ZOO, K_NAN, K_CPLX, K_BOOL, K_SYM };
struct Basic { int kind; int id; int val; };
struct Number;
typedef Number *RCPNumber;
struct Number : Basic { RCPNumber sub(const Number &o) const; bool is_negative() const { return val < 0; } };
extern Number sub_result;
inline RCPNumber Number::sub(const Number &o) const { sub_result.kind = K_RAT; sub_result.id = -1; sub_result.val = val - o.val; return &sub_result; }
typedef Basic *RCPBasic;
struct RCPBoolean { int tag; };
struct SymEngineException { SymEngineException(const char *m) {} };
inline bool is_a_Complex(const Basic &x) { return x.kind == K_CPLX; }
inline bool is_a_Number(const Basic &x) { return x.kind <= K_CPLX; }
inline bool eq(const Basic &a, const Basic &b) { return a.id == b.id; }
inline bool is_a_NaN(const Basic &x) { return x.kind == K_NAN; }
inline bool is_a_BooleanAtom(const Basic &x) { return x.kind == K_BOOL; }
inline Number &as_Number(const Basic &x) { return *(Number *)&x; }
inline RCPBoolean boolean(bool v) { RCPBoolean r; r.tag = v ? 1 : 0; return r; }
inline RCPBoolean mk_LessThan(const RCPBasic &a, const RCPBasic &b) { RCPBoolean r; r.tag = 2; return r; }
inline RCPBoolean mk_StrictLessThan(const RCPBasic &a, const RCPBasic &b) { RCPBoolean r; r.tag = 3; return r; }
extern RCPBasic ComplexInf;

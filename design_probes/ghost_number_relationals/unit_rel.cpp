#include "prelude_num.h"
RCPBasic ComplexInf; Number sub_result;
#include "rel_body2.inc"
extern "C" void h_le(void)
{
  Number A, B, Z; Z.kind = K_ZOO; Z.id = 0; Z.val = 0; ComplexInf = &Z;
  __CPROVER_assume(A.kind <= K_DBL && B.kind <= K_DBL && A.id > 0 && B.id > 0);
  __CPROVER_assume(-1000 < A.val && A.val < 1000 && -1000 < B.val && B.val < 1000);
  __CPROVER_assume(!(A.id == B.id) || (A.kind == B.kind && A.val == B.val));
  __CPROVER_assume(!(A.kind == B.kind && A.val == B.val) || A.id == B.id);
  RCPBasic a = &A, b = &B;
  RCPBoolean le = Le(a, b), lt = Lt(b, a);
  __CPROVER_assert(le.tag == (A.val <= B.val ? 1 : 0), "C29.Le.post: Le(a,b) is true exactly when a <= b numerically");
  __CPROVER_assert(lt.tag == (B.val < A.val ? 1 : 0), "C29.Lt.post: Lt(b,a) is true exactly when b < a numerically");
  __CPROVER_assert(le.tag == 1 - lt.tag, "C29.lemma: Le(a,b) == not Lt(b,a)");
}

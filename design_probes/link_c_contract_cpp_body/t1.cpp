// no std headers
template <class T> struct vec {
  T *d; unsigned n;
  unsigned size() const { return n; }
  T &operator[](unsigned i) { return d[i]; }
  const T &operator[](unsigned i) const { return d[i]; }
};
typedef vec<unsigned> uvec;
bool csr_has_sorted_indices(const uvec &p_, const uvec &j_, unsigned row_)
{
    for (unsigned i = 0; i < row_; i++) {
        for (unsigned jj = p_[i]; jj < p_[i + 1] - 1; jj++) {
            if (j_[jj] > j_[jj + 1])
                return false;
        }
    }
    return true;
}
extern "C" int wrap(unsigned *p, unsigned *j, unsigned row, unsigned nnz) {
  uvec P; P.d=p; P.n=row+1; uvec J; J.d=j; J.n=nnz;
  return csr_has_sorted_indices(P,J,row);
}

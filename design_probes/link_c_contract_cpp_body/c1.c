#include <stddef.h>
int wrap(unsigned *p, unsigned *j, unsigned row, unsigned nnz)
__CPROVER_requires(row == 2 && nnz <= 6 && __CPROVER_is_fresh(p, 3*sizeof(unsigned)) && __CPROVER_is_fresh(j, 6*sizeof(unsigned)))
__CPROVER_requires(p[0]==0 && p[0]<=p[1] && p[1]<=p[2] && p[2]==nnz)
__CPROVER_ensures(__CPROVER_return_value==0 || __CPROVER_return_value==1)
__CPROVER_assigns()
;
void h(void){ unsigned *p,*j; unsigned row,nnz; wrap(p,j,row,nnz); }

#include "prelude_tok.h"
namespace SymEngine {
#include "lex_body.inc"
}
extern "C" void h_lex1(void)
{
  unsigned char buf[N + 1];
  buf[N] = 0;
  SymEngine::Tokenizer t; yy::parser::semantic_type lv;
  unsigned off; __CPROVER_assume(off <= N);
  t.cur = buf + off;                 // requires: cur inside the NUL-terminated buffer
  int r = t.lex(&lv);
  __CPROVER_assert(t.tok >= buf && t.cur <= buf + N + 1 && t.tok <= t.cur, "C18.lex.post.cursor_in_buffer");
  if (r == 0) __CPROVER_assert(t.cur[-1] == 0, "C18.lex.post.END_only_at_NUL");
  else __CPROVER_assert(t.cur <= buf + N && t.cur > t.tok, "C18.lex.post.token_nonempty_and_stops_before_NUL");
}

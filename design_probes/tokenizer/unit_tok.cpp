#include "prelude_tok.h"
namespace SymEngine {
#include "lex_body.inc"
}
#ifndef N
#define N 6
#endif
extern "C" void h_lex(void)
{
  unsigned char buf[N + 1];
  buf[N] = 0;                       // NUL-terminated input of length <= N
  SymEngine::Tokenizer t; yy::parser::semantic_type lv;
  t.cur = buf;
  // token loop as yy::parser drives it: stop at END_OF_FILE
  for (int k = 0; k < N + 1; k++) {
    int r = t.lex(&lv);
    __CPROVER_assert(t.tok >= buf && t.cur <= buf + N + 1 && t.tok <= t.cur, "C18.lex.post: cursor stays inside the NUL-terminated buffer");
    if (r == yy::parser::token::END_OF_FILE) { __CPROVER_assert(t.cur[-1] == 0, "C18.lex.post: END only at NUL"); break; }
    __CPROVER_assert(t.cur <= buf + N && t.cur > t.tok, "C18.lex.post: non-END token consumes >=1 byte and never the terminator");
  }
}

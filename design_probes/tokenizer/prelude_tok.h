// stub prelude for Tokenizer::lex (drops: std::string payload, bison semantic_type, exception object)
namespace std { struct string { unsigned char *p; long n; string() {p=0;n=0;} string(char *q, long k) { p=(unsigned char*)q; n=k; } }; 
}
inline std::string operator+(const char *a, const std::string &b) { return b; }
inline std::string operator+(const std::string &a, const char *b) { return a; }
namespace SymEngine { struct ParseError { ParseError(const std::string &m) {} }; }
namespace yy { struct parser {
  struct semantic_type { std::string s; template <class T> T &emplace() { return s; } };
  struct token { struct yytokentype { enum { END_OF_FILE = 0, IDENTIFIER = 258, NUMERIC = 259, IMPLICIT_MUL = 260, POW = 261, LE=262, GE=263, NE=264, EQ=265, PIECEWISE=266 }; }; enum {END_OF_FILE = 0}; };
}; }
#define SYMENGINE_ASSERT(c) __CPROVER_assert((c), "SYMENGINE_ASSERT");
namespace SymEngine {
class Tokenizer
{
public:
    unsigned char *cur;
    unsigned char *mar;
    unsigned char *tok;
    int lex(yy::parser::semantic_type *yylval);
    std::string token() const
    {
        return std::string((char *)tok, cur - tok);
    }
};
}

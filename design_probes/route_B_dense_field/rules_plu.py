import sys,re
s=sys.stdin.read()
def must(a,b,count=None):
    global s
    n=s.count(a)
    assert n>=1 and (count is None or n==count), (a,n)
    s=s.replace(a,b)
must("RCP<const Basic>","RCPBasic")
must("for (auto &p : pl) {","for (unsigned p__k = 0; p__k < pl.size(); p__k++) { pl_pair p = pl.at(p__k);",1)
s,n=re.subn(r"pl\.push_back\(\{([^{}]*?),\s*([^{}]*?)\}\)", r"pl.push_back(mk_pair(\1, \2))", s); assert n==1,n
must("DenseMatrix x_ = DenseMatrix(b);","DenseMatrix x_ = b;",1)
sys.stdout.write(s)

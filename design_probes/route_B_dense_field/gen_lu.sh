set -e
P=${1:-3}
{
echo '#include "prelude_field.h"'
echo 'bool div_by_zero_flag; RCPBasic zero, one, minus_one;'
cat tables_$P.h
python3 extract.py /repo/symengine/dense_matrix.cpp mul_dense_dense 'LU#1' back_substitution forward_substitution 'LU_solve#1' | sed "s/RCP<const Basic>/RCPBasic/g"
cat harness_lu.cpp
} > unit_lu.cpp

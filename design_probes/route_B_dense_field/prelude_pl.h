struct SymEngineException { SymEngineException(const char *m) {} };
struct pl_pair { unsigned first, second; };
inline pl_pair mk_pair(unsigned a, unsigned b) { pl_pair p; p.first = a; p.second = b; return p; }
struct permutelist { pl_pair d[8]; unsigned n; permutelist() { n = 0; } unsigned size() const { return n; } pl_pair at(unsigned k) const { return d[k]; }
  void push_back(pl_pair p) { __CPROVER_assert(n < 8, "stub capacity"); d[n].first = p.first; d[n].second = p.second; n = n + 1; } };

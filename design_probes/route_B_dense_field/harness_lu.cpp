extern "C" void h_lu(void)
{
  const unsigned n = NN;
  zero = mkr(0); one = mkr(1); minus_one = mkr(FP - 1); div_by_zero_flag = false;
  DenseMatrix A(n, n), L(n, n), U(n, n), P(n, n);
  for (unsigned i = 0; i < n * n; i++) { fe_t v; __CPROVER_assume(v < FP); A.m_.d[i] = mkr(v); }
  LU(A, L, U);
  __CPROVER_assume(!div_by_zero_flag);          // documented precondition: non-singular leading minors
  mul_dense_dense(L, U, P);
  for (unsigned i = 0; i < n; i++) for (unsigned j = 0; j < n; j++) {
    __CPROVER_assert(P.m_.d[i * n + j].b.v == A.m_.d[i * n + j].b.v, "C24.LU.post: L*U == A");
    if (j > i) __CPROVER_assert(L.m_.d[i * n + j].b.v == 0, "C24.LU.post: L lower triangular");
    if (j < i) __CPROVER_assert(U.m_.d[i * n + j].b.v == 0, "C24.LU.post: U upper triangular");
    if (j == i) __CPROVER_assert(L.m_.d[i * n + j].b.v == 1, "C24.LU.post: L unit diagonal");
  }
}
extern "C" void h_lusolve(void)
{
  const unsigned n = NN;
  zero = mkr(0); one = mkr(1); minus_one = mkr(FP - 1); div_by_zero_flag = false;
  DenseMatrix A(n, n), b(n, 1), x(n, 1), r(n, 1);
  for (unsigned i = 0; i < n * n; i++) { fe_t v; __CPROVER_assume(v < FP); A.m_.d[i] = mkr(v); }
  for (unsigned i = 0; i < n; i++) { fe_t v; __CPROVER_assume(v < FP); b.m_.d[i] = mkr(v); }
  LU_solve(A, b, x);
  __CPROVER_assume(!div_by_zero_flag);
  mul_dense_dense(A, x, r);
  for (unsigned i = 0; i < n; i++) __CPROVER_assert(r.m_.d[i].b.v == b.m_.d[i].b.v, "C24.LU_solve.post: A*x == b");
}

set -e
P=${1:-5}
{
echo '#include "prelude_field.h"'
echo 'bool div_by_zero_flag; RCPBasic zero, one, minus_one;'
cat tables_$P.h
python3 extract.py /repo/symengine/dense_matrix.cpp "DenseMatrix::is_lower" "DenseMatrix::is_upper" pivot row_exchange_dense fraction_free_LU det_bareis transpose_dense | sed "s/RCP<const Basic>/RCPBasic/g" | sed "s/auto A = \*this;/DenseMatrix A = *this;/"
cat harness_det3.cpp
} > unit_det.cpp

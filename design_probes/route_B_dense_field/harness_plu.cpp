extern "C" void h_plusolve(void)
{
  const unsigned n = NN;
  zero = mkr(0); one = mkr(1); minus_one = mkr(FP - 1); div_by_zero_flag = false;
  DenseMatrix A(n, n), b(n, 1), x(n, 1), r(n, 1);
  for (unsigned i = 0; i < n * n; i++) { fe_t v; __CPROVER_assume(v < FP); A.m_.d[i] = mkr(v); }
  for (unsigned i = 0; i < n; i++) { fe_t v; __CPROVER_assume(v < FP); b.m_.d[i] = mkr(v); }
  // determinant != 0 (pivoted LU's documented precondition: otherwise it throws "rank deficient")
  pivoted_LU_solve(A, b, x);
  __CPROVER_assert(!div_by_zero_flag, "C24.pivoted_LU_solve: pivoting never divides by zero");
  mul_dense_dense(A, x, r);
  for (unsigned i = 0; i < n; i++) __CPROVER_assert(r.m_.d[i].b.v == b.m_.d[i].b.v, "C24.pivoted_LU_solve.post: A*x == b");
}

set -e
P=${1:-3}
{
echo '#include "prelude_field.h"'
echo 'bool div_by_zero_flag; RCPBasic zero, one, minus_one;'
cat tables_$P.h
cat prelude_pl.h
python3 extract.py /repo/symengine/dense_matrix.cpp mul_dense_dense row_exchange_dense permuteFwd back_substitution forward_substitution 'pivoted_LU#0' 'pivoted_LU#1' pivoted_LU_solve | python3 rules_plu.py
cat harness_plu.cpp
} > unit_plu.cpp

// Stub prelude (non-template): abstract field GF(FP) stands in for RCP<const Basic> exact numbers
#ifndef FP
#define FP 7
#endif
#ifndef CAP
#define CAP 16
#endif
#define SYMENGINE_ASSERT(c) __CPROVER_assert((c), "SYMENGINE_ASSERT");
typedef unsigned char fe_t;
struct Basic { fe_t v; };
struct RCPBasic {
  mutable Basic b;
  const Basic &operator*() const { return b; }
};
enum class tribool { indeterminate = -1, trifalse = 0, tritrue = 1 };
inline bool is_true(tribool x) { return x == tribool::tritrue; }
inline bool is_false(tribool x) { return x == tribool::trifalse; }
inline RCPBasic mk(unsigned v) { RCPBasic r; r.b.v = (fe_t)(v % FP); return r; }
extern const fe_t T_ADD[FP][FP], T_SUB[FP][FP], T_MUL[FP][FP], T_DIV[FP][FP];
inline RCPBasic mkr(fe_t v) { RCPBasic r; r.b.v = v; return r; }
inline RCPBasic add(const RCPBasic &a, const RCPBasic &b) { return mkr(T_ADD[a.b.v][b.b.v]); }
inline RCPBasic sub(const RCPBasic &a, const RCPBasic &b) { return mkr(T_SUB[a.b.v][b.b.v]); }
inline RCPBasic mul(const RCPBasic &a, const RCPBasic &b) { return mkr(T_MUL[a.b.v][b.b.v]); }
extern bool div_by_zero_flag;
extern const fe_t FP_INV[FP];
inline RCPBasic div(const RCPBasic &a, const RCPBasic &b) {
  if (b.b.v == 0) { div_by_zero_flag = true; return mk(0); }
  return mkr(T_DIV[a.b.v][b.b.v]);
}
inline tribool is_zero(const Basic &x) { return x.v == 0 ? tribool::tritrue : tribool::trifalse; }
inline bool eq(const Basic &a, const Basic &b) { return a.v == b.v; }
inline bool is_number_and_zero(const Basic &x) { return x.v == 0; }
struct vec_basic {
  RCPBasic d[CAP]; unsigned n;
  vec_basic() { n = 0; }
  vec_basic(unsigned k) { n = k; }
  vec_basic(const vec_basic &o) { n = o.n; d[0].b.v = o.d[0].b.v; d[1].b.v = o.d[1].b.v; d[2].b.v = o.d[2].b.v; d[3].b.v = o.d[3].b.v; d[4].b.v = o.d[4].b.v; d[5].b.v = o.d[5].b.v; d[6].b.v = o.d[6].b.v; d[7].b.v = o.d[7].b.v; d[8].b.v = o.d[8].b.v; d[9].b.v = o.d[9].b.v; d[10].b.v = o.d[10].b.v; d[11].b.v = o.d[11].b.v; d[12].b.v = o.d[12].b.v; d[13].b.v = o.d[13].b.v; d[14].b.v = o.d[14].b.v; d[15].b.v = o.d[15].b.v; }
  vec_basic &operator=(const vec_basic &o) { n = o.n; d[0].b.v = o.d[0].b.v; d[1].b.v = o.d[1].b.v; d[2].b.v = o.d[2].b.v; d[3].b.v = o.d[3].b.v; d[4].b.v = o.d[4].b.v; d[5].b.v = o.d[5].b.v; d[6].b.v = o.d[6].b.v; d[7].b.v = o.d[7].b.v; d[8].b.v = o.d[8].b.v; d[9].b.v = o.d[9].b.v; d[10].b.v = o.d[10].b.v; d[11].b.v = o.d[11].b.v; d[12].b.v = o.d[12].b.v; d[13].b.v = o.d[13].b.v; d[14].b.v = o.d[14].b.v; d[15].b.v = o.d[15].b.v; return *this; }
  unsigned size() const { return n; }
  RCPBasic &operator[](unsigned i) { __CPROVER_assert(i < n, "vector index in bounds"); return d[i]; }
  RCPBasic operator[](unsigned i) const { __CPROVER_assert(i < n, "vector index in bounds"); return d[i]; }
};
namespace std {
template <class T> void swap(T &a, T &b) { T t = a; a = b; b = t; }
}
extern RCPBasic zero, one, minus_one;
class DenseMatrix {
public:
  vec_basic m_; unsigned row_, col_;
  DenseMatrix() { row_ = 0; col_ = 0; }
  DenseMatrix(unsigned r, unsigned c) { row_ = r; col_ = c; m_.n = r * c; }
  DenseMatrix(unsigned r, unsigned c, const vec_basic &l) { row_ = r; col_ = c; m_ = l; }
  unsigned nrows() const { return row_; }
  unsigned ncols() const { return col_; }
  RCPBasic get(unsigned i, unsigned j) const { return m_[i * col_ + j]; }
  bool is_lower() const;
  bool is_upper() const;
};

#include "prelude_field.h"
bool div_by_zero_flag; RCPBasic zero, one, minus_one;
#include TABLES
inline unsigned numeric_cast_unsigned(unsigned x) { return x; }
inline RCPBasic integer(int k) { return mkr((fe_t)(((k % FP) + FP) % FP)); }
#include "fd.inc"
static fe_t fpow(fe_t b, unsigned e) { fe_t r = 1; for (unsigned i = 0; i < e; i++) r = T_MUL[r][b]; return r; }
extern "C" void h_fd(void)
{
  zero = mkr(0); one = mkr(1); minus_one = mkr(FP - 1); div_by_zero_flag = false;
  const unsigned len = LEN, md = MD;
  fe_t g[LEN], c; __CPROVER_assume(c < FP);
  vec_basic grid(len);
  for (unsigned i = 0; i < len; i++) { __CPROVER_assume(g[i] < FP); grid.d[i] = mkr(g[i]); }
  for (unsigned i = 0; i < len; i++) for (unsigned j = i + 1; j < len; j++) __CPROVER_assume(g[i] != g[j]);   // distinct grid points (mod p)
  vec_basic w = generate_fdiff_weights_vector(grid, md, mkr(c));
  __CPROVER_assert(!div_by_zero_flag, "C38.fdiff.no_division_by_zero_on_distinct_grid");
  __CPROVER_assert(w.size() == len * (md + 1), "C38.fdiff.post.size");
  static const fe_t FACT[5] = {1 % FP, 1 % FP, 2 % FP, 6 % FP, 24 % FP};
  for (unsigned k = 0; k <= md; k++)
    for (unsigned m = 0; m < len; m++) {
      fe_t s = 0;
      for (unsigned i = 0; i < len; i++) s = T_ADD[s][T_MUL[w.d[i + k * len].b.v][fpow(T_SUB[g[i]][c], m)]];
      __CPROVER_assert(s == (m == k ? FACT[k] : 0), "C38.fdiff.post: weights of order k differentiate the monomial basis exactly");
    }
}

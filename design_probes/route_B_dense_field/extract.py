#!/usr/bin/env python3
"""extract function definitions verbatim from a C++ source by signature regex + brace matching"""
import re, sys
def extract(src, name_regex, nth=0):
    # find 'name(' at column 0-started definitions
    pat = re.compile(r'^(?P<sig>[A-Za-z_][^\n;{}]*\b' + name_regex + r'\s*\((?:[^;{}]|\n)*?\))\s*(?:const\s*)?\n?\{', re.M)
    ms = list(pat.finditer(src))
    if len(ms) <= nth:
        raise SystemExit("EXTRACT-FAIL: %s (found %d)" % (name_regex, len(ms)))
    m = ms[nth]
    i = m.end() - 1
    depth = 0
    j = i
    while True:
        c = src[j]
        if c == '{': depth += 1
        elif c == '}':
            depth -= 1
            if depth == 0: break
        j += 1
    return src[m.start():j+1]
if __name__ == '__main__':
    src = open(sys.argv[1]).read()
    for spec in sys.argv[2:]:
        nth = 0
        if '#' in spec: spec, nth = spec.split('#'); nth = int(nth)
        print(extract(src, spec, nth)); print()

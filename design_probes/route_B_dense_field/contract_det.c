#ifndef FP
#define FP 7
#endif
#ifndef NMAX
#define NMAX 3
#endif
static unsigned md(int x) { int r = x % FP; if (r < 0) r += FP; return (unsigned)r; }
static int d2(int a,int b,int c,int d){ return a*d-b*c; }
static int d3(const unsigned char *m){ return (int)m[0]*d2(m[4],m[5],m[7],m[8]) - (int)m[1]*d2(m[3],m[5],m[6],m[8]) + (int)m[2]*d2(m[3],m[4],m[6],m[7]); }
static int minor4(const unsigned char *m, int c){ unsigned char s[9]; int k=0; for(int i=1;i<4;i++) for(int j=0;j<4;j++) if(j!=c) s[k++]=m[i*4+j]; return (int)md(d3(s)); }
static unsigned spec_det(const unsigned char *a, unsigned n)
{
  if (n == 1) return md(a[0]);
  if (n == 2) return md(d2(a[0],a[1],a[2],a[3]));
  if (n == 3) return md(d3(a));
  return md((int)a[0]*minor4(a,0) - (int)a[1]*minor4(a,1) + (int)a[2]*minor4(a,2) - (int)a[3]*minor4(a,3));
}
unsigned det_wrap(const unsigned char *a, unsigned n)
__CPROVER_requires(1 <= n && n <= NMAX && __CPROVER_is_fresh(a, 16))
__CPROVER_requires(a[0]<FP&&a[1]<FP&&a[2]<FP&&a[3]<FP&&a[4]<FP&&a[5]<FP&&a[6]<FP&&a[7]<FP&&a[8]<FP&&a[9]<FP&&a[10]<FP&&a[11]<FP&&a[12]<FP&&a[13]<FP&&a[14]<FP&&a[15]<FP)
__CPROVER_ensures(__CPROVER_return_value == spec_det(a, n))
;
void h_det(void){ const unsigned char *a; unsigned n; det_wrap(a, n); }

#define A_(x,y) T_ADD[x][y]
#define S_(x,y) T_SUB[x][y]
#define M_(x,y) T_MUL[x][y]
static fe_t d2(fe_t a,fe_t b,fe_t c,fe_t d){ return S_(M_(a,d),M_(b,c)); }
static fe_t d3(const fe_t *m){ return A_(S_(M_(m[0],d2(m[4],m[5],m[7],m[8])), M_(m[1],d2(m[3],m[5],m[6],m[8]))), M_(m[2],d2(m[3],m[4],m[6],m[7]))); }
static fe_t minor4(const fe_t *m, int c){ fe_t s[9]; int k=0; for(int i=1;i<4;i++) for(int j=0;j<4;j++) if(j!=c) s[k++]=m[i*4+j]; return d3(s); }
static fe_t spec_det(const fe_t *a, unsigned n)
{
  if (n == 1) return a[0];
  if (n == 2) return d2(a[0],a[1],a[2],a[3]);
  if (n == 3) return d3(a);
  return S_(A_(S_(M_(a[0],minor4(a,0)), M_(a[1],minor4(a,1))), M_(a[2],minor4(a,2))), M_(a[3],minor4(a,3)));
}
extern "C" void h_det2(void)
{
  fe_t a[16]; unsigned n = NN;
  for (unsigned i = 0; i < 16; i++) __CPROVER_assume(a[i] < FP);
  zero = mkr(0); one = mkr(1); minus_one = mkr(FP - 1); div_by_zero_flag = false;
  DenseMatrix A(n, n);
  for (unsigned i = 0; i < n * n; i++) A.m_.d[i] = mkr(a[i]);
  RCPBasic r = det_bareis(A);
  __CPROVER_assert(r.b.v == spec_det(a, n), "C24.det_bareis.post: result equals cofactor determinant");
}

#ifndef FP
#define FP 3
#endif
#define CAP 10
#define SYMENGINE_ASSERT(c) __CPROVER_assert((c), "SYMENGINE_ASSERT");
typedef unsigned char fe_t;
struct Basic { fe_t v; };
struct RCPBasic { mutable Basic b; const Basic &operator*() const { return b; } };
enum class tribool { indeterminate = -1, trifalse = 0, tritrue = 1 };
inline bool is_true(tribool x) { return x == tribool::tritrue; }
inline tribool is_zero(const Basic &x) { return x.v == 0 ? tribool::tritrue : tribool::trifalse; }
inline RCPBasic mkr(fe_t v) { RCPBasic r; r.b.v = v; return r; }
extern RCPBasic zero;
// fixed-capacity vectors; insert/erase shift by unrolled-bounded loops in extern "C" helpers
extern "C" void stub_shift_up_u(unsigned *d, unsigned n, unsigned k) { for (unsigned i = CAP - 1; i > 0; i--) if (i > k && i <= n) d[i] = d[i - 1]; }
extern "C" void stub_shift_down_u(unsigned *d, unsigned n, unsigned k) { for (unsigned i = 0; i + 1 < CAP; i++) if (i >= k && i + 1 < n) d[i] = d[i + 1]; }
extern "C" void stub_shift_up_b(fe_t *d, unsigned n, unsigned k) { for (unsigned i = CAP - 1; i > 0; i--) if (i > k && i <= n) d[i] = d[i - 1]; }
extern "C" void stub_shift_down_b(fe_t *d, unsigned n, unsigned k) { for (unsigned i = 0; i + 1 < CAP; i++) if (i >= k && i + 1 < n) d[i] = d[i + 1]; }
struct uvec { unsigned d[CAP]; unsigned n;
  unsigned size() const { return n; }
  unsigned &operator[](unsigned i) { __CPROVER_assert(i < n, "vector index in bounds"); return d[i]; }
  unsigned operator[](unsigned i) const { __CPROVER_assert(i < n, "vector index in bounds"); return d[i]; }
  unsigned begin() const { return 0; }                          // iterators are positions
  void insert(unsigned pos, unsigned v) { __CPROVER_assert(pos <= n && n < CAP, "vector insert position/capacity"); stub_shift_up_u(d, n, pos); d[pos] = v; n = n + 1; }
  void erase(unsigned pos) { __CPROVER_assert(pos < n, "vector erase position"); stub_shift_down_u(d, n, pos); n = n - 1; }
};
struct bvec { fe_t d[CAP]; unsigned n;
  unsigned size() const { return n; }
  struct ref { fe_t *p; void operator=(const RCPBasic &e) { *p = e.b.v; } };
  ref operator[](unsigned i) { __CPROVER_assert(i < n, "vector index in bounds"); ref r; r.p = &d[i]; return r; }
  RCPBasic operator[](unsigned i) const { __CPROVER_assert(i < n, "vector index in bounds"); return mkr(d[i]); }
  unsigned begin() const { return 0; }
  void insert(unsigned pos, const RCPBasic &e) { __CPROVER_assert(pos <= n && n < CAP, "vector insert position/capacity"); stub_shift_up_b(d, n, pos); d[pos] = e.b.v; n = n + 1; }
  void erase(unsigned pos) { __CPROVER_assert(pos < n, "vector erase position"); stub_shift_down_b(d, n, pos); n = n - 1; }
};
class CSRMatrix {
public:
  uvec p_, j_; bvec x_; unsigned row_, col_;
  RCPBasic get(unsigned i, unsigned j) const;
  void set(unsigned i, unsigned j, const RCPBasic &e);
  bool is_canonical() const;
  static bool csr_has_duplicates(const uvec &p_, const uvec &j_, unsigned row_);
  static bool csr_has_sorted_indices(const uvec &p_, const uvec &j_, unsigned row_);
  static bool csr_has_canonical_format(const uvec &p_, const uvec &j_, unsigned row_);
};

#include "prelude_csr.h"
RCPBasic zero;
#include "csr.inc"
#ifndef R
#define R 2
#endif
#ifndef C
#define C 3
#endif
extern "C" void h_set(void)
{
  zero = mkr(0);
  CSRMatrix M; M.row_ = R; M.col_ = C; M.p_.n = R + 1; unsigned nnz; __CPROVER_assume(nnz <= R * C); M.j_.n = nnz; M.x_.n = nnz;
  for (unsigned k = 0; k < R + 1; k++) __CPROVER_assume(M.p_.d[k] <= nnz);
  __CPROVER_assume(M.p_.d[0] == 0 && M.p_.d[R] == nnz);
  for (unsigned k = 0; k < R * C; k++) { __CPROVER_assume(M.j_.d[k] < C); __CPROVER_assume(M.x_.d[k] < FP && (k >= nnz || M.x_.d[k] != 0)); }
  __CPROVER_assume(M.is_canonical());                        // arbitrary canonical matrix = any reachable history
  // dense view before
  fe_t D[R][C];
  for (unsigned i = 0; i < R; i++) for (unsigned j = 0; j < C; j++) D[i][j] = M.get(i, j).b.v;
  unsigned si, sj; fe_t sv; __CPROVER_assume(si < R && sj < C && sv < FP);
  M.set(si, sj, mkr(sv));
  __CPROVER_assert(M.is_canonical(), "C25.set.post: result is canonical (the constructor's SYMENGINE_ASSERT)");
  for (unsigned i = 0; i < R; i++) for (unsigned j = 0; j < C; j++)
    __CPROVER_assert(M.get(i, j).b.v == ((i == si && j == sj) ? sv : D[i][j]), "C25.set.post: dense view updated at (i,j) only");
  unsigned cnt = 0; for (unsigned k = 0; k < R * C; k++) if (k < M.x_.n && M.x_.d[k] == 0) cnt++;
  __CPROVER_assert(cnt == 0, "C25.set.post: no stored zero");
}

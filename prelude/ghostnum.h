/* ghost-number prelude (DESIGN §3.3): an abstract Basic/Number object is {type_code_, id, cls, v}.
   RCP<const T> is a raw pointer.  Every member below is an ASSUMED CONTRACT of the real class
   hierarchy, listed in the evidence under trusted_base:
     eq(a,b)            <=> same id        (harness ties id to (type_code_, cls, v): leaf numbers are canonical)
     is_zero/is_one/... read the ghost value; for an Infty they go through the real in-class methods
     sub/mul            exact on the ghost extended value (finite values are 2*value so halves exist)   */
#ifndef VERIF_GHOSTNUM_H
#define VERIF_GHOSTNUM_H
#include "core.h"
enum GCls { G_FIN = 0, G_PINF = 1, G_NINF = 2, G_ZOO = 3, G_NANV = 4, G_CPLX = 5, G_NONNUM = 6 };
struct Infty;
struct NaN;
struct Basic;
typedef Basic Number;
typedef Basic Boolean;
typedef Basic *RCPBasic;   /* non-const: CBMC 6.11 mis-types "const T *" returned from a member of T */
struct Basic {
  TypeID type_code_;
  int id;                   /* structural identity */
  int cls;                  /* GCls */
  int v;                    /* G_FIN: 2*value ; otherwise a ghost discriminator */
  Infty *inf_;        /* the Infty payload when type_code_ == SYMENGINE_INFTY */
  NaN *nan_;  /* the NaN payload when type_code_ == SYMENGINE_NOT_A_NUMBER */
  bool bval;                /* BooleanAtom value */
  RCPBasic arg1, arg2;      /* relational operands */
  TypeID get_type_code() const { return type_code_; }
  bool is_zero() const; bool is_one() const; bool is_minus_one() const;
  bool is_positive() const; bool is_negative() const; bool is_complex() const;
  RCPBasic sub(const Basic &o) const;     /* C29 units: ghost contract (below); C06 units: real Number::sub text */
  RCPBasic mul(const Basic &o) const;
  RCPBasic add(const Basic &o) const; RCPBasic div(const Basic &o) const; RCPBasic pow(const Basic &o) const;
  RCPBasic rsub(const Basic &o) const; RCPBasic rdiv(const Basic &o) const; RCPBasic rpow(const Basic &o) const;
  RCPBasic g_sub(const Basic &o) const; RCPBasic g_mul(const Basic &o) const;
  RCPBasic number_sub(const Basic &o) const; RCPBasic number_rsub(const Basic &o) const; RCPBasic number_div(const Basic &o) const; RCPBasic number_rdiv(const Basic &o) const;
  bool get_val() const { return bval; }
  bool is_exact() const { return type_code_ != SYMENGINE_REAL_DOUBLE && type_code_ != SYMENGINE_COMPLEX_DOUBLE; }      /* Number::is_exact: false for the floating kinds */
  bool __eq__(const Basic &o) const { return id == o.id; }
  int __cmp__(const Basic &o) const { return id == o.id ? 0 : (id < o.id ? -1 : 1); }   /* assumed C02 contract */
  RCPBasic get_arg1() const { return arg1; }
  RCPBasic get_arg2() const { return arg2; }
#ifdef GHOST_BASIC_EXTRA
  GHOST_BASIC_EXTRA       /* unit-specific members, e.g. accept(Visitor &) */
#endif
};
struct Infty {
  RCPBasic _direction;
  RCPBasic num_;            /* the Basic object this payload belongs to */
  RCPBasic get_direction() const { return _direction; }
  RCPBasic rcp_from_this_cast_Number() const { return num_; }
#include "infty_inline.inc"  /* real in-class methods of symengine/infinity.h (is_zero ... is_complex), extracted */
  bool is_unsigned_infinity() const; bool is_positive_infinity() const; bool is_negative_infinity() const;
  bool is_canonical(const RCPBasic &num) const;
  RCPBasic add(const Number &other) const; RCPBasic mul(const Number &other) const; RCPBasic div(const Number &other) const;
  RCPBasic pow(const Number &other) const; RCPBasic rpow(const Number &other) const;
};
struct NaN { RCPBasic num_; RCPBasic rcp_from_this_cast_Number() const { return num_; }
  RCPBasic add(const Number &other) const; RCPBasic mul(const Number &other) const; RCPBasic div(const Number &other) const;
  RCPBasic pow(const Number &other) const; RCPBasic rpow(const Number &other) const; };

/* result objects come from a static pool.  The harness calls g_region(k) before every call of a
   function under contract, so that the pool index is a constant at the start of each call (a single
   running counter becomes symbolic after the first branch and makes every later access a mux over the
   whole pool).  A region holds G_REGION objects; overflow is an obligation. */
#define G_NCONST 12
#define G_REGION 8
#define G_NREGION 8
#define GPOOL (G_NCONST + G_REGION * G_NREGION)
/* CBMC's C++ front end types a literal 0 assigned to a pointer as an integer address and then aborts
   (__CPROVER_memory): absent operands point at these dummies instead of being null */
extern Basic g_none; extern Infty g_noinf; extern NaN g_nonan;
/* separate named objects, not an array: CBMC 6.11 aborts (__CPROVER_memory) on nested dereferences through a
   pointer to an array element of struct type with a symbolic index */
#define G_OBJS(X) X(0) X(1) X(2) X(3) X(4) X(5) X(6) X(7) X(8) X(9) X(10) X(11) X(12) X(13) X(14) X(15) X(16) X(17) X(18) X(19) X(20) X(21) X(22) X(23) X(24) X(25) X(26) X(27) X(28) X(29) X(30) X(31) X(32) X(33) X(34) X(35) X(36) X(37) X(38) X(39) X(40) X(41) X(42) X(43) X(44) X(45) X(46) X(47) X(48) X(49) X(50) X(51) X(52) X(53) X(54) X(55) X(56) X(57) X(58) X(59) X(60) X(61) X(62) X(63) X(64) X(65) X(66) X(67) X(68) X(69) X(70) X(71) X(72) X(73) X(74) X(75)
#define G_DECL(i) extern Basic gp##i; extern Infty gi##i; extern NaN gn##i;
G_OBJS(G_DECL)
extern unsigned gpool_n, gpool_end, gpool_base; extern int gfresh_id;
inline Basic *g_obj(unsigned k)
{
  switch (k) {
#define G_CASE(i) case i: gp##i.inf_ = &gi##i; gp##i.nan_ = &gn##i; return &gp##i;
  G_OBJS(G_CASE)
  default: return &g_none;
  }
}
inline void g_region(unsigned k) { gpool_base = G_NCONST + k * G_REGION; gpool_n = 0; gpool_end = G_REGION; }
inline Basic *gfresh()
{
  __CPROVER_assert(gpool_n < gpool_end, "stub pool region capacity");
  /* gpool_base is a constant during symbolic execution; gpool_n (offset in the region) may be symbolic
     after a branch, so the selection is a mux over the G_REGION objects of the region only */
  Basic *r;
  switch (gpool_n) {
    case 0: r = g_obj(gpool_base + 0); break; case 1: r = g_obj(gpool_base + 1); break;
    case 2: r = g_obj(gpool_base + 2); break; case 3: r = g_obj(gpool_base + 3); break;
    case 4: r = g_obj(gpool_base + 4); break; case 5: r = g_obj(gpool_base + 5); break;
    case 6: r = g_obj(gpool_base + 6); break; default: r = g_obj(gpool_base + 7); break;
  }
  gpool_n = gpool_n + 1;
  r->id = gfresh_id; gfresh_id = gfresh_id + 1;      /* non-number results: fresh identity */
  r->arg1 = &g_none; r->arg2 = &g_none; r->bval = false; r->v = 0; r->cls = G_NONNUM; r->type_code_ = TypeID_Count;
  r->inf_->num_ = r; r->nan_->num_ = r;
  return r;
}
/* identity of a number is an injective function of (type, class, ghost value): eq <=> structurally equal */
#define G_VMAX 4000
inline int g_id(TypeID t, int cls, int v) { return 100000 + (int)t * 100000 + cls * 10000 + (v + G_VMAX); }
inline void g_setid(Basic *r) { __CPROVER_assert(r->v >= -G_VMAX && r->v <= G_VMAX, "ghost value range"); r->id = g_id(r->type_code_, r->cls, r->v); }
/* ---- constructors (assumed contracts of integer(), infty(), make_rcp<Infty>, Nan, zero, one ...) */
inline RCPBasic g_finite(TypeID t, int v2) { Basic *r = gfresh(); r->type_code_ = t; r->cls = G_FIN; r->v = v2; g_setid(r); return r; }
inline RCPBasic g_integer(int k) { return g_finite(SYMENGINE_INTEGER, 2 * k); }
inline RCPBasic g_nan() { Basic *r = gfresh(); r->type_code_ = SYMENGINE_NOT_A_NUMBER; r->cls = G_NANV; g_setid(r); return r; }
inline RCPBasic mk_Infty(const RCPBasic &dir)
{
  Basic *r = gfresh(); Infty *p = r->inf_;
  r->type_code_ = SYMENGINE_INFTY; p->_direction = dir; p->num_ = r;
  /* Infty's constructor asserts is_canonical(direction): direction is -1, 0 or 1 */
  __CPROVER_assert(dir->cls == G_FIN && (dir->v == 2 || dir->v == 0 || dir->v == -2), "C06.Infty.ctor.direction_canonical");
  r->cls = dir->v > 0 ? G_PINF : (dir->v < 0 ? G_NINF : G_ZOO);
  g_setid(r);
  return r;
}
inline RCPBasic infty(const RCPBasic &dir) { return mk_Infty(dir); }
inline RCPBasic infty(int k) { return mk_Infty(g_integer(k)); }
extern RCPBasic Nan, zero, one, minus_one, ComplexInf, Inf, NegInf, boolTrue, boolFalse;
inline RCPBasic integer(int k) { return g_integer(k); }
inline RCPBasic boolean(bool b) { return b ? boolTrue : boolFalse; }
inline RCPBasic logical_not(const RCPBasic &b) { __CPROVER_assert(b->type_code_ == SYMENGINE_BOOLEAN_ATOM, "logical_not stub: BooleanAtom only"); return boolean(!b->bval); }
inline RCPBasic g_rel(TypeID t, const RCPBasic &a, const RCPBasic &b)
{ Basic *r = gfresh(); r->type_code_ = t; r->arg1 = a; r->arg2 = b; return r; }
inline RCPBasic mk_Equality(const RCPBasic &a, const RCPBasic &b) { return g_rel(SYMENGINE_EQUALITY, a, b); }
inline RCPBasic mk_Unequality(const RCPBasic &a, const RCPBasic &b) { return g_rel(SYMENGINE_UNEQUALITY, a, b); }
inline RCPBasic mk_LessThan(const RCPBasic &a, const RCPBasic &b) { return g_rel(SYMENGINE_LESSTHAN, a, b); }
inline RCPBasic mk_StrictLessThan(const RCPBasic &a, const RCPBasic &b) { return g_rel(SYMENGINE_STRICTLESSTHAN, a, b); }

/* ---- type tests */
#define G_IS_A(C, code) inline bool is_aT_##C(const Basic &b) { return b.type_code_ == code; }
G_IS_A(Infty, SYMENGINE_INFTY) G_IS_A(NaN, SYMENGINE_NOT_A_NUMBER) G_IS_A(Complex, SYMENGINE_COMPLEX)
G_IS_A(ComplexDouble, SYMENGINE_COMPLEX_DOUBLE) G_IS_A(BooleanAtom, SYMENGINE_BOOLEAN_ATOM)
G_IS_A(Integer, SYMENGINE_INTEGER) G_IS_A(Rational, SYMENGINE_RATIONAL) G_IS_A(RealDouble, SYMENGINE_REAL_DOUBLE)
inline const Infty &as_Infty(const Basic &b) { return *b.inf_; }
inline const NaN &as_NaN(const Basic &b) { return *b.nan_; }
inline const Number &as_Number(const Basic &b) { return b; }

/* ---- ghost predicates (assumed contracts of the per-class is_zero()... of the finite kinds;
        an Infty goes through the real Infty methods) */
inline bool Basic::is_zero() const { return type_code_ == SYMENGINE_INFTY ? inf_->is_zero() : (cls == G_FIN && v == 0); }
inline bool Basic::is_one() const { return type_code_ == SYMENGINE_INFTY ? inf_->is_one() : (cls == G_FIN && v == 2); }
inline bool Basic::is_minus_one() const { return type_code_ == SYMENGINE_INFTY ? inf_->is_minus_one() : (cls == G_FIN && v == -2); }
inline bool Basic::is_positive() const { return type_code_ == SYMENGINE_INFTY ? inf_->is_positive() : (cls == G_FIN && v > 0); }
inline bool Basic::is_negative() const { return type_code_ == SYMENGINE_INFTY ? inf_->is_negative() : (cls == G_FIN && v < 0); }
inline bool Basic::is_complex() const { return type_code_ == SYMENGINE_INFTY ? inf_->is_complex() : (cls == G_CPLX); }

/* ---- ghost arithmetic on extended values (assumed contract of Number::sub / Number::mul) */
inline RCPBasic g_ext(int cls, int v)
{
  if (cls == G_FIN) return g_finite(nondet_boolean() ? SYMENGINE_RATIONAL : SYMENGINE_REAL_DOUBLE, v);
  if (cls == G_NANV) return g_nan();
  if (cls == G_PINF) return infty(1);
  if (cls == G_NINF) return infty(-1);
  if (cls == G_ZOO) return infty(0);
  Basic *r = gfresh(); r->type_code_ = SYMENGINE_COMPLEX; r->cls = G_CPLX; r->v = nondet_int(); __CPROVER_assume(r->v >= -G_VMAX && r->v <= G_VMAX); g_setid(r); return r;
}
inline RCPBasic Basic::g_sub(const Basic &o) const
{
  int a = cls, b = o.cls;
  if (a == G_NANV || b == G_NANV) return g_ext(G_NANV, 0);
  if (a == G_CPLX || b == G_CPLX || a == G_ZOO || b == G_ZOO) { int c = nondet_int(); __CPROVER_assume(c == G_CPLX || c == G_ZOO || c == G_NANV); return g_ext(c, 0); }
  if (a == G_FIN && b == G_FIN) return g_ext(G_FIN, v - o.v);
  if (a == G_FIN) return g_ext(b == G_PINF ? G_NINF : G_PINF, 0);
  if (b == G_FIN) return g_ext(a, 0);
  return a == b ? g_ext(G_NANV, 0) : g_ext(a, 0);
}
inline RCPBasic Basic::g_mul(const Basic &o) const
{
  /* used by infinity.cpp on directions only: exact for |values| <= 1, sign-correct otherwise */
  __CPROVER_assert(cls == G_FIN && o.cls == G_FIN, "ghost mul: finite real operands only");
  int sa = v > 0 ? 1 : (v < 0 ? -1 : 0), sb = o.v > 0 ? 1 : (o.v < 0 ? -1 : 0);
  int s = sa * sb;
  if ((v == 2 || v == -2 || v == 0) && (o.v == 2 || o.v == -2 || o.v == 0)) return g_finite(SYMENGINE_INTEGER, 2 * s);
  int m = nondet_int(); __CPROVER_assume(m >= 1 && m <= 1000);
  return g_finite(SYMENGINE_RATIONAL, s * m);
}
/* extended order used by the harness specifications */
inline int g_rank(const Basic &x) { return x.cls == G_PINF ? 1 : (x.cls == G_NINF ? -1 : 0); }
inline bool g_le(const Basic &a, const Basic &b) { int ra = g_rank(a), rb = g_rank(b); return ra != rb ? ra < rb : (ra != 0 ? true : a.v <= b.v); }
inline bool g_lt(const Basic &a, const Basic &b) { int ra = g_rank(a), rb = g_rank(b); return ra != rb ? ra < rb : (ra != 0 ? false : a.v < b.v); }

#define G_DEF(i) Basic gp##i; Infty gi##i; NaN gn##i;
#define GHOSTNUM_GLOBALS \
  Basic g_none; Infty g_noinf; NaN g_nonan; unsigned gpool_n, gpool_end, gpool_base; int gfresh_id; G_OBJS(G_DEF) int verif_thrown; bool verif_may_throw; \
  RCPBasic Nan, zero, one, minus_one, ComplexInf, Inf, NegInf, boolTrue, boolFalse;
/* the library's global constants */
inline void g_init_constants()
{
  gpool_base = 0; gpool_n = 0; gpool_end = G_NCONST; gfresh_id = 1000;
  g_none.type_code_ = TypeID_Count; g_none.cls = G_NONNUM; g_none.inf_ = &g_noinf; g_none.nan_ = &g_nonan; g_none.arg1 = &g_none; g_none.arg2 = &g_none;
  g_noinf._direction = &g_none; g_noinf.num_ = &g_none; g_nonan.num_ = &g_none; verif_thrown = 0;
  zero = g_integer(0); one = g_integer(1); minus_one = g_integer(-1);
  Nan = g_nan(); ComplexInf = infty(0);
  gpool_base = 6; gpool_n = 0; Inf = infty(1); NegInf = infty(-1);
  Basic *t = gfresh(); t->type_code_ = SYMENGINE_BOOLEAN_ATOM; t->bval = true; t->id = 8; boolTrue = t;
  Basic *f = gfresh(); f->type_code_ = SYMENGINE_BOOLEAN_ATOM; f->bval = false; f->id = 9; boolFalse = f;
}
#endif

/* exact-number prelude for C05: GMP is replaced by its ASSUMED CONTRACT.
   integer_class  = one machine word treated as a mathematical integer (harness keeps products in range)
   rational_class = {num, den, canon}; canonicalize / mpq operators return lowest terms, den > 0
   Two modes:
     -DEXACT_ABSTRACT : operands are full 64-bit symbolic words; canonicalize and the mpq operators
                        return an ARBITRARY canonical value (only structure is decided: full domain)
     default          : operands small (harness range), arithmetic executed exactly, gcd by search
   Preconditions of GMP that symengine must respect are obligations:
     rational_class(n, d): d != 0     q / r: r != 0     1 / q: q != 0                                  */
#ifndef VERIF_EXACTNUM_H
#define VERIF_EXACTNUM_H
#include "core.h"
#define SYMENGINE_GMP 3
#define SYMENGINE_BOOSTMP 4
#define SYMENGINE_INTEGER_CLASS SYMENGINE_GMP      /* this build: -DINTEGER_CLASS=gmp (symengine_config.h) */
typedef long integer_class;
#include "gcdtab.h"
/* concrete mode: gcd and exact division by table look-up; operands must stay within 0..GT_MAX in absolute value */
inline long exact_gcd(long a, long b)
{
  if (a < 0) a = 0 - a; if (b < 0) b = 0 - b;
  __CPROVER_assert(a <= GT_MAX && b <= GT_MAX, "stub gcd table range");
  return GCD_TAB[a][b];
}
inline long exact_quo(long n, long g)     /* n / g for g | n, g > 0 */
{
  bool neg = n < 0; if (neg) n = 0 - n;
  __CPROVER_assert(n <= GT_MAX && g >= 1 && g <= GT_MAX, "stub quotient table range");
  long q = QUO_TAB[n][g];
  return neg ? 0 - q : q;
}
struct rational_class {
  long num, den; bool canon;
  rational_class() { num = 0; den = 1; canon = true; }
  rational_class(long n) { num = n; den = 1; canon = true; }
  rational_class(long n, long d) {
    __CPROVER_assert(d != 0, "C05.gmp_pre.rational_class_ctor.denominator_nonzero");
    __CPROVER_assume(d != 0);       /* GMP raises SIGFPE here: the path ends */
    num = n; den = d; canon = false;
  }
  /* unary minus as a member: a free unary operator- hides the binary ones in CBMC's overload resolution */
  rational_class operator-() const { rational_class r; r.num = 0 - num; r.den = den; r.canon = canon; return r; }
};
/* is (num, den) in lowest terms with positive denominator?  a predicate on the value, not a flag
   (rational_class(sign, abs) is canonical by construction when abs == 1 ...) */
inline bool q_is_canonical(const rational_class &q)
{
#ifdef EXACT_ABSTRACT
  /* "known canonical": by a GMP contract (flag), or by arithmetic: n/1 and (+-1)/d with d > 0 are in lowest terms */
  return q.canon || q.den == 1 || ((q.num == 1 || q.num == -1) && q.den > 0);
#else
  return q.den > 0 && exact_gcd(q.num, q.den) == 1;
#endif
}
inline integer_class &get_num(rational_class &q) { return q.num; }
inline integer_class &get_den(rational_class &q) { return q.den; }
inline const integer_class &get_num(const rational_class &q) { return q.num; }
inline const integer_class &get_den(const rational_class &q) { return q.den; }
namespace SymEngine {
inline integer_class &get_num(rational_class &q) { return q.num; }
inline integer_class &get_den(rational_class &q) { return q.den; }
inline const integer_class &get_num(const rational_class &q) { return q.num; }
inline const integer_class &get_den(const rational_class &q) { return q.den; }
}
inline void canonicalize(rational_class &q)
{
#ifdef EXACT_ABSTRACT
  /* contract: some (n', d') in lowest terms with d' > 0 and the same value; zero stays zero, sign kept */
  long n = nondet_long(), d = nondet_long();
  __CPROVER_assume(d >= 1);
  __CPROVER_assume((n == 0) == (q.num == 0));
  __CPROVER_assume(n == 0 || (n > 0) == ((q.num > 0) == (q.den > 0)));
  __CPROVER_assume(!(q.num == 0) || d == 1);
  if (q_is_canonical(q)) { n = q.num; d = q.den; }       /* idempotent on canonical input */
  q.num = n; q.den = d; q.canon = true;
#else
  long g = exact_gcd(q.num, q.den);
  long n = exact_quo(q.num, g), d = exact_quo(q.den, g);
  if (d < 0) { n = 0 - n; d = 0 - d; }
  q.num = n; q.den = d; q.canon = true;
#endif
}
inline rational_class q_make(long n, long d)      /* exact n/d, canonical (the contract of every mpq operator) */
{
  rational_class r;
#ifdef EXACT_ABSTRACT
  r.num = nondet_long(); r.den = nondet_long(); __CPROVER_assume(r.den >= 1); r.canon = true;
  __CPROVER_assume(!(r.num == 0) || r.den == 1);
#else
  r.num = n; r.den = d; r.canon = false; canonicalize(r);
#endif
  return r;
}
#ifdef EXACT_ABSTRACT
#define QOP(n, d) q_make(0, 1)
#else
#define QOP(n, d) q_make((n), (d))
#endif
inline rational_class q_add(const rational_class &a, const rational_class &b) { return QOP(a.num * b.den + b.num * a.den, a.den * b.den); }
inline rational_class q_sub(const rational_class &a, const rational_class &b) { return QOP(a.num * b.den - b.num * a.den, a.den * b.den); }
inline rational_class q_mul(const rational_class &a, const rational_class &b) { return QOP(a.num * b.num, a.den * b.den); }
inline rational_class q_div(const rational_class &a, const rational_class &b)
{ __CPROVER_assert(b.num != 0, "C05.gmp_pre.mpq_division.divisor_nonzero"); __CPROVER_assume(b.num != 0); return QOP(a.num * b.den, a.den * b.num); }
inline rational_class q_int(long b) { rational_class r; r.num = b; r.den = 1; r.canon = true; return r; }
/* operators are thin wrappers (an operator calling another overloaded operator confuses the front end) */
inline rational_class operator+(const rational_class &a, const rational_class &b) { return q_add(a, b); }
inline rational_class operator-(const rational_class &a, const rational_class &b) { return q_sub(a, b); }
inline rational_class operator*(const rational_class &a, const rational_class &b) { return q_mul(a, b); }
inline rational_class operator/(const rational_class &a, const rational_class &b) { return q_div(a, b); }
inline rational_class operator+(const rational_class &a, long b) { return q_add(a, q_int(b)); }
inline rational_class operator-(const rational_class &a, long b) { return q_sub(a, q_int(b)); }
inline rational_class operator*(const rational_class &a, long b) { return q_mul(a, q_int(b)); }
inline rational_class operator/(const rational_class &a, long b) { return q_div(a, q_int(b)); }
inline rational_class operator-(long a, const rational_class &b) { return q_sub(q_int(a), b); }
inline rational_class operator/(long a, const rational_class &b) { return q_div(q_int(a), b); }
inline rational_class operator/(int a, const rational_class &b) { return q_div(q_int(a), b); }
inline bool operator==(const rational_class &a, const rational_class &b) { return a.num == b.num && a.den == b.den; }
inline bool operator==(const rational_class &a, int b) { return a.num == b && a.den == 1; }
inline int mp_sign(long j) { return j > 0 ? 1 : (j < 0 ? -1 : 0); }
inline long mp_abs(long j) { return j < 0 ? -j : j; }
inline bool mp_fits_ulong_p(long j) { return j >= 0; }
inline bool mp_fits_slong_p(long j) { return true; }      /* the one-word model: every value fits a long */
inline long mp_get_si(long j) { return j; }
inline void mp_gcd(long &g, long a, long b)
{
#ifdef EXACT_ABSTRACT
  long x = nondet_long(); __CPROVER_assume(x >= 0 && x < (1L << 62) && ((x == 0) == (a == 0 && b == 0)) && (a == 0 || b == 0 || x >= 1));
  g = x;
#else
  g = exact_gcd(a, b);
#endif
}
inline int mp_cmpabs(long a, long b) { unsigned long x = a < 0 ? 0ul - (unsigned long)a : (unsigned long)a, y = b < 0 ? 0ul - (unsigned long)b : (unsigned long)b; return x < y ? -1 : (x > y ? 1 : 0); }
inline unsigned long mp_get_ui(long j) { return j < 0 ? 0ul - (unsigned long)j : (unsigned long)j; }
#ifndef POW_MAX
#define POW_MAX 4
#endif
extern "C" void mp_pow_ui(long &r, long b, unsigned long e);
template <class T> T &std_move(T &t) { return t; }
#endif

/* core prelude: the handful of symengine/base declarations every extracted unit needs.
   TRUSTED: hash_t is 'unsigned long' on this platform (symengine/basic.h: typedef uint64_t hash_t). */
#ifndef VERIF_CORE_H
#define VERIF_CORE_H
#ifdef VERIF_HASH_BITS16
typedef unsigned short hash_t;     /* narrowed model of hash_t, used only where stated (bounded stand-in, never counted as proved) */
#else
typedef unsigned long hash_t;
#endif
enum TypeID {
#define SYMENGINE_INCLUDE_ALL
#define SYMENGINE_ENUM(type, Class) type,
#include "symengine/type_codes.inc"          /* the real file from /repo (-I /repo) */
#undef SYMENGINE_ENUM
#undef SYMENGINE_INCLUDE_ALL
  TypeID_Count
};
/* the developers' own in-code preconditions become obligations */
#define SYMENGINE_ASSERT(c) __CPROVER_assert((c), "SYMENGINE_ASSERT " #c);
/* throw E(...) -> VERIF_THROW(E): record, check it is permitted, end the path */
extern int verif_thrown;          /* ghost: 0 = none */
extern bool verif_may_throw;      /* harness sets: is an exception an allowed outcome here? */
#define VERIF_THROW(E) do { verif_thrown = 1; __CPROVER_assert(verif_may_throw, "throw " #E " only where the contract allows it"); __CPROVER_assume(0); } while (0)
#define OBL(name, cond) __CPROVER_assert((cond), name)
#define REACHABLE(name) __CPROVER_assert(0, "VACUITY." name)
extern "C" {
int nondet_int(void); unsigned nondet_uint(void); long nondet_long(void); unsigned long nondet_ulong(void);
double nondet_double(void); unsigned char nondet_uchar(void); signed char nondet_schar(void);
}
extern "C" { void *memcpy(void *dst, const void *src, unsigned long n); int memcmp(const void *a, const void *b, unsigned long n); void *memset(void *s, int c, unsigned long n); }
namespace std { using ::memcpy; using ::memcmp; using ::memset; }      /* <cstring>: CBMC's own models */
/* <cmath> classification functions a maintenance edit of the bodies under contract is likely to use (IEEE semantics, CBMC built-ins) */
namespace std {
inline bool isnan(double x) { return x != x; }
inline bool isinf(double x) { return __CPROVER_isinfd(x); }
inline bool isfinite(double x) { return __CPROVER_isfinited(x); }
inline bool signbit(double x) { return __CPROVER_signd(x); }
inline double fabs(double x) { return __CPROVER_fabs(x); }
}
inline bool nondet_boolean() { return nondet_uchar() != 0; }   /* a raw nondet C++ bool may be a non-0/1 byte */
#endif

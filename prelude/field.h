/* field prelude (DESIGN §3.3): RCP<const Basic> over exact numbers is an element of GF(FP), FP in {3,5,7};
   add/sub/mul/div/neg/integer(k)/is_zero/eq are table look-ups.  ASSUMED CONTRACT: symengine's add/mul/sub/div on
   exact numbers implement the field Q; an identity of rational functions over Q holds over GF(p) wherever no
   division by zero occurs, so a correct tree cannot raise an alarm.  Division by the field's zero sets
   div_by_zero_flag (the harness decides whether that execution is excluded or an obligation).
   A default-constructed RCP is null: dereferencing it is an obligation. */
#ifndef VERIF_FIELD_H
#define VERIF_FIELD_H
#include "core.h"
#ifndef FP
#define FP 5
#endif
#ifndef CAP
#define CAP 16
#endif
typedef unsigned char fe_t;
#include "field_tables.h"
struct Basic { fe_t v; };
struct RCPBasic {
  mutable Basic b; bool nn;
  RCPBasic() { nn = false; b.v = 0; }
  const Basic &operator*() const { __CPROVER_assert(nn, "dereference of a non-null RCP"); return b; }
  bool is_null() const { return !nn; }
};
inline RCPBasic mkr(fe_t v) { RCPBasic r; r.b.v = v; r.nn = true; return r; }
inline RCPBasic integer(int k) { int m = k % FP; if (m < 0) m = m + FP; return mkr((fe_t)m); }
extern bool div_by_zero_flag;
#define FVAL(a) ((a).b.v < FP ? (a).b.v : 0)
inline RCPBasic add(const RCPBasic &a, const RCPBasic &b) { __CPROVER_assert(a.nn && b.nn, "arithmetic on non-null RCPs"); return mkr(T_ADD[FVAL(a)][FVAL(b)]); }
inline RCPBasic sub(const RCPBasic &a, const RCPBasic &b) { __CPROVER_assert(a.nn && b.nn, "arithmetic on non-null RCPs"); return mkr(T_SUB[FVAL(a)][FVAL(b)]); }
inline RCPBasic mul(const RCPBasic &a, const RCPBasic &b) { __CPROVER_assert(a.nn && b.nn, "arithmetic on non-null RCPs"); return mkr(T_MUL[FVAL(a)][FVAL(b)]); }
inline RCPBasic div(const RCPBasic &a, const RCPBasic &b)
{
  __CPROVER_assert(a.nn && b.nn, "arithmetic on non-null RCPs");
  if (FVAL(b) == 0) { div_by_zero_flag = true; return mkr(0); }
  return mkr(T_DIV[FVAL(a)][FVAL(b)]);
}
inline RCPBasic field_conjugate(const RCPBasic &a) { return a; }
inline RCPBasic neg(const RCPBasic &a) { __CPROVER_assert(a.nn, "arithmetic on non-null RCPs"); return mkr(T_SUB[0][FVAL(a)]); }
enum class tribool { indeterminate = -1, trifalse = 0, tritrue = 1 };
inline bool is_true(tribool x) { return x == tribool::tritrue; }
inline bool is_false(tribool x) { return x == tribool::trifalse; }
inline tribool is_zero(const Basic &x) { return x.v == 0 ? tribool::tritrue : tribool::trifalse; }
inline bool eq(const Basic &a, const Basic &b) { return a.v == b.v; }
inline bool neq(const Basic &a, const Basic &b) { return a.v != b.v; }
inline bool is_number_and_zero(const Basic &x) { return x.v == 0; }
#define VB_COPY1(k) d[k].b.v = o.d[k].b.v; d[k].nn = o.d[k].nn;
#if CAP == 16
#define VB_COPY VB_COPY1(0) VB_COPY1(1) VB_COPY1(2) VB_COPY1(3) VB_COPY1(4) VB_COPY1(5) VB_COPY1(6) VB_COPY1(7) VB_COPY1(8) VB_COPY1(9) VB_COPY1(10) VB_COPY1(11) VB_COPY1(12) VB_COPY1(13) VB_COPY1(14) VB_COPY1(15)
#elif CAP == 9
#define VB_COPY VB_COPY1(0) VB_COPY1(1) VB_COPY1(2) VB_COPY1(3) VB_COPY1(4) VB_COPY1(5) VB_COPY1(6) VB_COPY1(7) VB_COPY1(8)
#elif CAP == 20
#define VB_COPY VB_COPY1(0) VB_COPY1(1) VB_COPY1(2) VB_COPY1(3) VB_COPY1(4) VB_COPY1(5) VB_COPY1(6) VB_COPY1(7) VB_COPY1(8) VB_COPY1(9) VB_COPY1(10) VB_COPY1(11) VB_COPY1(12) VB_COPY1(13) VB_COPY1(14) VB_COPY1(15) VB_COPY1(16) VB_COPY1(17) VB_COPY1(18) VB_COPY1(19)
#else
#error "CAP must be 9, 16 or 20 (unrolled copies: the front end cannot copy arrays of structs)"
#endif
/* insert/erase shift helpers (loops live in extern "C" functions so that --unwindset can name them) */
struct RCPBasic;
extern "C" void vb_shift_up(RCPBasic *d, unsigned n, unsigned k);
extern "C" void vb_shift_down(RCPBasic *d, unsigned n, unsigned k);
extern "C" void vb_fill(RCPBasic *d, unsigned from, unsigned to, fe_t v, bool nn);
struct vec_basic {
  RCPBasic d[CAP]; unsigned n;
  vec_basic() { n = 0; }
  vec_basic(unsigned k) { __CPROVER_assert(k <= CAP, "stub capacity (vec_basic)"); n = k; }      /* k null RCPs */
  vec_basic(const vec_basic &o) { n = o.n; VB_COPY }
  vec_basic &operator=(const vec_basic &o) { n = o.n; VB_COPY return *this; }
  unsigned size() const { return n; }
  RCPBasic &operator[](unsigned i) { __CPROVER_assert(i < n, "vector index in bounds"); return d[i < CAP ? i : 0]; }
  RCPBasic operator[](unsigned i) const { __CPROVER_assert(i < n, "vector index in bounds"); return d[i < CAP ? i : 0]; }
  vec_basic(unsigned k, const RCPBasic &x) { __CPROVER_assert(k <= CAP, "stub capacity (vec_basic)"); n = k; vb_fill(d, 0, k, x.b.v, x.nn); }
  /* iterators are positions: begin() + k is the unsigned k */
  unsigned begin() const { return 0; }
  void insert(unsigned pos, const RCPBasic &e) { __CPROVER_assert(pos <= n, "vector insert position in range"); __CPROVER_assert(n < CAP, "stub capacity (vec_basic)"); if (pos <= n && n < CAP) { vb_shift_up(d, n, pos); d[pos].b.v = e.b.v; d[pos].nn = e.nn; n = n + 1; } }
  void erase(unsigned pos) { __CPROVER_assert(pos < n, "vector erase position in range"); if (pos < n) { vb_shift_down(d, n, pos); n = n - 1; } }
  void resize(unsigned k) { __CPROVER_assert(k <= CAP, "stub capacity (vec_basic)"); if (k > n) vb_fill(d, n, k, 0, false); n = k; }
  void swap(vec_basic &o) { vec_basic t = o; o = *this; *this = t; }
  bool empty() const { return n == 0; }
  RCPBasic &front() { __CPROVER_assert(n > 0, "front() on a non-empty vector"); return d[0]; }
  RCPBasic &back() { __CPROVER_assert(n > 0, "back() on a non-empty vector"); return d[n > 0 && n <= CAP ? n - 1 : 0]; }
  RCPBasic &at(unsigned i) { __CPROVER_assert(i < n, "vector index in bounds"); return d[i < CAP ? i : 0]; }
  void pop_back() { __CPROVER_assert(n > 0, "pop_back() on a non-empty vector"); if (n > 0) n = n - 1; }
  void clear() { n = 0; }
  void assign(unsigned k, const RCPBasic &x) { __CPROVER_assert(k <= CAP, "stub capacity (vec_basic)"); n = k; vb_fill(d, 0, k, x.b.v, x.nn); }
  void push_back(const RCPBasic &x) { __CPROVER_assert(n < CAP, "stub capacity (vec_basic)"); if (n < CAP) { d[n].b.v = x.b.v; d[n].nn = x.nn; n = n + 1; } }
};
extern "C" void vb_shift_up(RCPBasic *d, unsigned n, unsigned k) { for (unsigned i = CAP - 1; i > 0; i--) if (i > k && i <= n) { d[i].b.v = d[i - 1].b.v; d[i].nn = d[i - 1].nn; } }
extern "C" void vb_shift_down(RCPBasic *d, unsigned n, unsigned k) { for (unsigned i = 0; i + 1 < CAP; i++) if (i >= k && i + 1 < n) { d[i].b.v = d[i + 1].b.v; d[i].nn = d[i + 1].nn; } }
extern "C" void vb_fill(RCPBasic *d, unsigned from, unsigned to, fe_t v, bool nn) { for (unsigned i = 0; i < CAP; i++) if (i >= from && i < to) { d[i].b.v = v; d[i].nn = nn; } }
namespace std { template <class T> void swap(T &a, T &b) { T t = a; a = b; b = t; } }
extern RCPBasic zero, one, minus_one;
#define FIELD_GLOBALS bool div_by_zero_flag; RCPBasic zero, one, minus_one; int verif_thrown; bool verif_may_throw;
inline void field_init() { zero = mkr(0); one = mkr(1); minus_one = mkr(FP - 1); div_by_zero_flag = false; verif_thrown = 0; }
inline fe_t nondet_fe() { fe_t x = nondet_uchar(); __CPROVER_assume(x < FP); return x; }
#endif

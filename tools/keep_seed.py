#!/usr/bin/env python3
"""keep_seed.py <Cxx> <k> <seed-id> <needs> <outcome> [<detail>]: copy a confirmed seeded change from /tmp/seed_<Cxx>_out into /verif/seeded/<seed-id>/"""
import json, os, shutil, sys
prop, k, sid, needs, outcome = sys.argv[1:6]
detail = sys.argv[6] if len(sys.argv) > 6 else ""
src = "%s_%s_out" % (os.environ.get("SEEDROOT", "/tmp/seed"), prop)
dst = os.path.join(os.path.dirname(os.path.dirname(os.path.abspath(__file__))), "seeded", sid)
os.makedirs(dst, exist_ok=True)
shutil.copy(os.path.join(src, "patch%s.diff" % k), os.path.join(dst, "patch.diff"))
shutil.copy(os.path.join(src, "demo%s.cpp" % k), os.path.join(dst, "demo.cpp"))
ver = open(os.path.join(src, "verify.log")).read() if os.path.exists(os.path.join(src, "verify.log")) else ""
meta = {"seed_id": sid, "property": prop, "breaks": prop, "needs_to_manifest": needs,
        "author": "independent sub-agent given only the property text and a scratch worktree",
        "confirmed_by": "tools/verify_seed.sh %s %s in the scratch worktree: builds, whole ctest suite passes with the change, demo exits non-zero with it and 0 without it" % (prop, k),
        "verify_log": [l for l in ver.splitlines()][(int(k) - 1) * 4:(int(k) - 1) * 4 + 4],
        "ran_check": "tools/run_seed.sh %s seeded/%s/patch.diff  (bin/check %s --tier quick against a scratch worktree of /repo HEAD with the patch applied)" % (prop, sid, prop),
        "outcome": outcome, "detail": detail}
json.dump(meta, open(os.path.join(dst, "meta.json"), "w"), indent=1)
print(dst)

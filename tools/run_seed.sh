#!/bin/bash
# run_seed.sh <Cxx> <patchfile> [check args]: run the property's quick check against a seeded change.
# The change is applied to a scratch worktree of /repo's HEAD (never to /repo itself), with scratch build and
# evidence directories, so the registered checks and their evidence are not disturbed.
P=$1; PATCH=$(readlink -f "$2"); shift 2
WT=/tmp/seedrun_$P
if [ ! -d $WT ]; then git -C /repo worktree add --detach $WT HEAD >/dev/null 2>&1 || exit 9; fi
git -C $WT checkout -q --detach $(git -C /repo rev-parse HEAD) 2>/dev/null; git -C $WT checkout -q -- .
git -C $WT apply "$PATCH" || { echo "apply failed"; exit 9; }
mkdir -p /tmp/seedrun_build_$P /tmp/seedrun_evid_$P
cd /verif
VERIF_REPO=$WT VERIF_BUILD=/tmp/seedrun_build_$P VERIF_EVID=/tmp/seedrun_evid_$P bin/check $P --tier quick "$@" 2>&1 | cut -c1-400 | grep -E "VIOLATION|UNDECIDED|KNOWN|property=" | head -12
echo "check exit=${PIPESTATUS[0]}"
git -C $WT checkout -q -- .

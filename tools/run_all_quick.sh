#!/bin/bash
# run every claimed check's quick command on the unchanged tree (two at a time) and summarise; evidence files are rewritten
cd /verif
props=$(python3 -c "import json;print(' '.join(c['property_id'] for c in json.load(open('MANIFEST.json'))['checks']))")
mkdir -p .build/allquick
run() { bin/check $1 --tier quick > .build/allquick/$1.log 2>&1; echo "$1 exit=$?" >> .build/allquick/summary.txt; }
: > .build/allquick/summary.txt
set -- $props
while [ $# -gt 0 ]; do
  run $1 & p1=$!; shift
  if [ $# -gt 0 ]; then run $1 & p2=$!; shift; wait $p2; fi
  wait $p1
done
cat .build/allquick/summary.txt

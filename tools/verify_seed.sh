#!/bin/bash
# verify_seed.sh <Cxx> <k>: confirm a seeded change in its scratch worktree /tmp/seed_<Cxx>:
# compiles, whole suite passes with it, demo fails with it and passes without it.  Log on stdout.
P=$1; K=$2; WT=${SEEDROOT:-/tmp/seed}_$P; OUT=${SEEDROOT:-/tmp/seed}_${P}_out
set -u
cd $WT || exit 9
git checkout -q -- . ; git apply $OUT/patch$K.diff || { echo "RESULT patch$K apply-failed"; exit 1; }
nice cmake --build $WT/_build -j6 >/dev/null 2>&1 || { echo "RESULT patch$K build-failed"; git checkout -q -- .; exit 1; }
T=$(ctest --test-dir $WT/_build -j6 --timeout 900 2>&1 | grep "tests passed")
echo "with patch: $T"
g++ -std=c++11 -O1 -I $WT -I $WT/_build $OUT/demo$K.cpp $WT/_build/symengine/libsymengine.a -lgmp -o $OUT/demo$K.bin 2>$OUT/demo$K.cc.log || { echo "RESULT patch$K demo-compile-failed"; }
( cd $OUT; timeout 300 ./demo$K.bin >$OUT/demo$K.with.log 2>&1; echo "demo with patch exit=$?" )
git checkout -q -- .
nice cmake --build $WT/_build -j6 >/dev/null 2>&1
g++ -std=c++11 -O1 -I $WT -I $WT/_build $OUT/demo$K.cpp $WT/_build/symengine/libsymengine.a -lgmp -o $OUT/demo$K.bin 2>>$OUT/demo$K.cc.log
( cd $OUT; timeout 300 ./demo$K.bin >$OUT/demo$K.without.log 2>&1; echo "demo without patch exit=$?" )
echo "RESULT patch$K done"

#!/usr/bin/env python3
"""vf — contract-verification driver library for /verif (see DESIGN.md §3).

Pipeline per unit:  extract real function text from /repo  ->  must-fire rewrite rules
->  goto-cc (C for route P, C++ subset for routes F/B)  ->  [goto-instrument --dfcc]  ->
cbmc --json-ui  ->  named obligations  ->  violations / known findings / replay / evidence.

Exit codes of a check: 0 = every obligation discharged, 1 = VIOLATION, 2 = undecided
(extraction rule did not fire, front end rejected the text, solver timeout, vacuous harness).
"""
import concurrent.futures
import difflib
import hashlib
import json
import os
import re
import resource
import shutil
import subprocess
import sys
import threading
import time

VERIF = os.path.dirname(os.path.dirname(os.path.abspath(__file__)))
REPO = os.environ.get("VERIF_REPO", "/repo")
BUILD = os.environ.get("VERIF_BUILD") or os.path.join(VERIF, ".build")      # overridden only by tools/run_seed.sh (scratch runs)
EVID = os.environ.get("VERIF_EVID") or os.path.join(VERIF, "evidence")
NCPU = int(os.environ.get("VERIF_JOBS", "16"))
MEM_BUDGET_GB = int(os.environ.get("VERIF_MEM_GB", "44"))


class Undecided(Exception):
    """extraction / front-end / solver problem: the run decides nothing (exit 2)"""


# --------------------------------------------------------------------------------------
# extraction
# --------------------------------------------------------------------------------------

def _skip_noncode(src, i):
    """if src[i:] starts a comment / string / char literal return index after it, else i"""
    c = src[i]
    if c == '/' and i + 1 < len(src):
        if src[i + 1] == '/':
            j = src.find('\n', i)
            return len(src) if j < 0 else j
        if src[i + 1] == '*':
            j = src.find('*/', i + 2)
            if j < 0:
                raise Undecided("unterminated comment")
            return j + 2
    if c == '"' or c == "'":
        j = i + 1
        while j < len(src):
            if src[j] == '\\':
                j += 2
                continue
            if src[j] == c:
                return j + 1
            if src[j] == '\n' and c == "'":
                break
            j += 1
        if c == "'":          # digit separator or stray quote: treat as ordinary char
            return i + 1
        raise Undecided("unterminated string literal")
    return i


def _match_brace(src, i):
    """src[i] == '{' ; returns index just after the matching '}'"""
    assert src[i] == '{'
    depth = 0
    j = i
    n = len(src)
    while j < n:
        k = _skip_noncode(src, j)
        if k != j:
            j = k
            continue
        c = src[j]
        if c == '{':
            depth += 1
        elif c == '}':
            depth -= 1
            if depth == 0:
                return j + 1
        j += 1
    raise Undecided("unbalanced braces")


def _find_body_start(src, i):
    """from index i (just after the matched signature prefix) find the '{' that opens the
    function body; returns -1 if a ';' comes first at paren depth 0 (a declaration)"""
    depth = 0
    j = i
    n = len(src)
    while j < n:
        k = _skip_noncode(src, j)
        if k != j:
            j = k
            continue
        c = src[j]
        if c == '(':
            depth += 1
        elif c == ')':
            depth = max(0, depth - 1)       # the selector may end inside the parameter list
        elif depth == 0 and c == ';':
            return -1
        elif depth == 0 and c == '{':
            return j
        elif depth == 0 and c == '}':
            return -1
        j += 1
    return -1


class Extracted:
    def __init__(self, relpath, sig, text, line):
        self.relpath, self.sig, self.raw, self.line = relpath, sig, text, line
        self.text = text
        self.sha256 = hashlib.sha256(text.encode()).hexdigest()
        self.fired = []


_src_cache = {}


def read_repo(relpath):
    p = os.path.join(REPO, relpath)
    if p not in _src_cache:
        try:
            _src_cache[p] = open(p, encoding="utf-8", errors="replace").read()
        except OSError as e:
            raise Undecided("cannot read %s: %s" % (p, e))
    return _src_cache[p]


def extract_function(relpath, sig_regex, body_only=False):
    """the unique function *definition* in /repo/<relpath> whose signature matches sig_regex
    (searched at line starts, leading blanks allowed), emitted verbatim"""
    src = read_repo(relpath)
    pat = re.compile(r'^[ \t]*(?:' + sig_regex + r')', re.M)
    found = []
    for m in pat.finditer(src):
        # reject matches inside comments: cheap test on the line prefix
        b = _find_body_start(src, m.end())
        if b < 0:
            continue
        e = _match_brace(src, b)
        found.append((m.start(), b, e))
    if len(found) != 1:
        raise Undecided("extract %s: %r matches %d definitions (need exactly 1)"
                        % (relpath, sig_regex, len(found)))
    s, b, e = found[0]
    text = src[b:e] if body_only else src[s:e]
    return Extracted(relpath, sig_regex, text + "\n", src.count('\n', 0, s) + 1)


def extract_region(relpath, start_regex, end_regex, include_end=True):
    """text between two pinned markers (used where the enclosing function cannot be compiled)"""
    src = read_repo(relpath)
    ms = list(re.finditer(start_regex, src, re.M))
    if len(ms) != 1:
        raise Undecided("region %s: start %r matches %d times" % (relpath, start_regex, len(ms)))
    s = ms[0].start()
    me = re.compile(end_regex, re.M).search(src, ms[0].end())
    if not me:
        raise Undecided("region %s: end %r not found" % (relpath, end_regex))
    e = me.end() if include_end else me.start()
    return Extracted(relpath, start_regex + " .. " + end_regex, src[s:e] + "\n",
                     src.count('\n', 0, s) + 1)


class R:
    """must-fire rewrite rule.  n=None: at least one firing; n=int: exactly n firings;
    n='*': any number (only for uniform token rules that may legitimately be absent);
    only=j: the pattern must occur exactly n times and only the j-th (0-based) is rewritten."""

    def __init__(self, pat, repl, n=None, regex=False, only=None, why=""):
        self.pat, self.repl, self.n, self.regex, self.only, self.why = pat, repl, n, regex, only, why

    def apply(self, text, where):
        if self.regex:
            ms = list(re.finditer(self.pat, text, re.M | re.S))
        else:
            ms = list(re.finditer(re.escape(self.pat), text))
        cnt = len(ms)
        ok = (cnt >= 1) if self.n is None else (True if self.n == '*' else cnt == self.n)
        if not ok:
            raise Undecided("rule did not fire as pinned in %s: %r found %d times, expected %s"
                            % (where, self.pat, cnt, "≥1" if self.n is None else self.n))
        out = []
        last = 0
        for idx, m in enumerate(ms):
            out.append(text[last:m.start()])
            if self.only is None or self.only == idx:
                out.append(m.expand(self.repl) if self.regex else self.repl)
            else:
                out.append(m.group(0))
            last = m.end()
        out.append(text[last:])
        return "".join(out), cnt


class Piece:
    """one extracted function (or region) plus its rules"""

    def __init__(self, relpath, sig, rules=(), body_only=False, region_end=None, name=None):
        self.relpath, self.sig, self.rules = relpath, sig, list(rules)
        self.body_only, self.region_end, self.name = body_only, region_end, name

    def get(self, common_rules):
        if self.region_end is not None:
            ex = extract_region(self.relpath, self.sig, self.region_end)
        else:
            ex = extract_function(self.relpath, self.sig, self.body_only)
        t = ex.text
        for r in list(self.rules) + list(common_rules):
            t, cnt = r.apply(t, "%s:%s" % (self.relpath, self.sig))
            if cnt:
                ex.fired.append("%r -> %r x%d" % (r.pat, r.repl, cnt))
        ex.text = t
        return ex


# --------------------------------------------------------------------------------------
# units / entries
# --------------------------------------------------------------------------------------

class Entry:
    def __init__(self, func, defines=None, route=None, unwind=None, unwindset=(), enforce=None,
                 replace=(), loop_contracts=False, timeout=300, mem_gb=4, solver="kissat",
                 checks=True, extra=(), bounds="", must_fail=(), label=None, kf_defines=True,
                 object_bits=None):
        self.func = func
        self.defines = dict(defines or {})
        self.route = route
        self.unwind, self.unwindset = unwind, list(unwindset)
        self.enforce, self.replace, self.loop_contracts = enforce, list(replace), loop_contracts
        self.timeout, self.mem_gb, self.solver = timeout, mem_gb, solver
        self.checks, self.extra, self.bounds = checks, list(extra), bounds
        self.must_fail = list(must_fail)   # obligation-name regexes expected to FAIL (vacuity guards)
        self.label = label or (func + "".join("_%s%s" % (k, v) for k, v in sorted(self.defines.items())))
        self.label = re.sub(r'[^A-Za-z0-9_.-]', '_', self.label)
        self.kf_defines = kf_defines
        self.object_bits = object_bits
        self.nloops = 1


class Unit:
    def __init__(self, name, prop, harness, pieces, entries, lang="cpp", route="F",
                 common_rules=(), trusted=(), assumptions=(), bounds="", forbid_auto=True,
                 functions_note=""):
        self.name, self.prop, self.harness = name, prop, harness
        self.pieces = pieces            # dict: include-file name -> [Piece,...]
        self.entries, self.lang, self.route = entries, lang, route
        self.common_rules = list(common_rules)
        self.trusted, self.assumptions, self.bounds = list(trusted), list(assumptions), bounds
        self.forbid_auto = forbid_auto
        self.functions = []             # filled by prepare(): dicts for the evidence
        self.dir = os.path.join(BUILD, prop, name)

    def prepare(self):
        shutil.rmtree(self.dir, ignore_errors=True)
        os.makedirs(self.dir)
        for inc, plist in self.pieces.items():
            outs, raws = [], []
            for p in plist:
                ex = p.get(self.common_rules)
                if self.forbid_auto and re.search(r'\bauto\b', _strip_comments(ex.text)):
                    raise Undecided("an 'auto' token survives the rules in %s:%s (CBMC would type it int)"
                                    % (p.relpath, p.sig))
                body = _strip_comments(ex.text)
                body = body[body.find('{') + 1:] if '{' in body else ""
                if re.search(r'\bstatic\b(?!_cast|_assert)', body) and not p.body_only and p.region_end is None:
                    raise Undecided("a function-local 'static' appears in %s:%s — CBMC 6.11 re-runs the constructor of a local static on every call, "
                                    "so state kept between calls would be mis-modelled" % (p.relpath, p.sig))
                outs.append("/* ---- %s:%d  %s ---- */\n%s" % (ex.relpath, ex.line, p.name or p.sig, ex.text))
                raws.append(ex.raw)
                self.functions.append({"file": ex.relpath, "line": ex.line, "selector": p.sig,
                                       "sha256_extracted": ex.sha256, "rules_fired": ex.fired})
            open(os.path.join(self.dir, inc), "w").write("\n".join(outs))
            open(os.path.join(self.dir, inc + ".raw"), "w").write("\n".join(raws))
            d = difflib.unified_diff("\n".join(raws).splitlines(True), "\n".join(outs).splitlines(True),
                                     "raw:" + inc, "rewritten:" + inc)
            open(os.path.join(self.dir, inc + ".diff"), "w").write("".join(d))


def _strip_comments(t):
    t = re.sub(r'/\*.*?\*/', ' ', t, flags=re.S)
    t = re.sub(r'//[^\n]*', ' ', t)
    t = re.sub(r'"(?:\\.|[^"\\])*"', '""', t)
    return t


# --------------------------------------------------------------------------------------
# running cbmc
# --------------------------------------------------------------------------------------

class _MemGate:
    def __init__(self, total):
        self.total, self.used, self.cv = total, 0, threading.Condition()

    def acquire(self, n):
        n = min(n, self.total)
        with self.cv:
            while self.used + n > self.total:
                self.cv.wait()
            self.used += n
        return n

    def release(self, n):
        with self.cv:
            self.used -= n
            self.cv.notify_all()


_gate = _MemGate(MEM_BUDGET_GB)


def _run(cmd, timeout, mem_gb, cwd=None, log=None):
    def lim():
        b = int(mem_gb * (1 << 30))
        resource.setrlimit(resource.RLIMIT_AS, (b, b))
        os.setsid()
    t0 = time.time()
    try:
        p = subprocess.Popen(cmd, stdout=subprocess.PIPE, stderr=subprocess.PIPE, cwd=cwd, preexec_fn=lim)
        try:
            out, err = p.communicate(timeout=timeout)
        except subprocess.TimeoutExpired:
            try:
                os.killpg(p.pid, 9)
            except OSError:
                pass
            out, err = p.communicate()
            return None, out.decode(errors="replace"), err.decode(errors="replace"), time.time() - t0
    except OSError as e:
        raise Undecided("cannot run %s: %s" % (cmd[0], e))
    return p.returncode, out.decode(errors="replace"), err.decode(errors="replace"), time.time() - t0


CHECK_FLAGS = ["--bounds-check", "--pointer-check", "--div-by-zero-check", "--signed-overflow-check",
               "--undefined-shift-check"]


def kf_defines_for(prop):
    """-DKF_<id> for every 'known:' entry of KNOWN_FINDINGS.txt that belongs to prop"""
    out = {}
    for kf in known_findings():
        if kf["property"] == prop:
            out["KF_" + kf["id"]] = "1"
    return out


_kf_cache = None


def known_findings():
    """'known:' entries of KNOWN_FINDINGS.txt.  Called from worker threads: the list is built locally and published in
    one assignment (a half-filled cache once made an entry compile without its -DKF_ define)."""
    global _kf_cache
    if _kf_cache is None:
        out = []
        p = os.path.join(VERIF, "KNOWN_FINDINGS.txt")
        if os.path.exists(p):
            for line in open(p):
                line = line.strip()
                if not line.startswith("known:"):
                    continue
                d = dict(re.findall(r'(\w+)=("(?:[^"]*)"|\S+)', line[6:]))
                d = {k: v.strip('"') for k, v in d.items()}
                if "property" in d and "id" in d and "obligation" in d:
                    out.append(d)
        _kf_cache = out
    return _kf_cache


def run_entry(unit, e, with_trace_for=None, suffix="", no_kf=False):
    """compile + (instrument) + cbmc one harness entry; returns result dict"""
    ext = ".c" if unit.lang == "c" else ".cpp"
    tag = e.label + suffix
    gb = os.path.join(unit.dir, tag + ".gb")
    defs = dict(e.defines)
    if e.kf_defines and not no_kf:
        defs.update(kf_defines_for(unit.prop))
    dflags = ["-D%s=%s" % kv for kv in sorted(defs.items())]
    cc = ["goto-cc", "--function", e.func, "-I", unit.dir, "-I", os.path.join(VERIF, "prelude"),
          "-I", os.path.dirname(os.path.join(VERIF, unit.harness)), "-I", REPO,
          "-DVERIF_CBMC=1"] + dflags + [os.path.join(VERIF, unit.harness), "-o", gb]
    res = {"unit": unit.name, "entry": tag, "route": e.route or unit.route, "bounds": e.bounds or unit.bounds,
           "cmds": [], "status": "ok", "obligations": [], "wall_s": 0.0, "solver": e.solver}
    mem = _gate.acquire(e.mem_gb)
    try:
        rc, out, err, dt = _run(cc, 600, 8)
        res["cmds"].append(" ".join(cc))
        res["wall_s"] += dt
        if rc != 0:
            res["status"] = "frontend"
            res["detail"] = (out + err)[-3000:]
            return res
        if e.enforce or e.loop_contracts or e.replace:
            gb2 = os.path.join(unit.dir, tag + ".dfcc.gb")
            gi = ["goto-instrument", "--dfcc", e.func]
            if e.enforce:
                gi += ["--enforce-contract", e.enforce]
            for r in e.replace:
                gi += ["--replace-call-with-contract", r]
            if e.loop_contracts:
                gi += ["--apply-loop-contracts"]
            gi += [gb, gb2]
            rc, out, err, dt = _run(gi, 600, 8)
            res["cmds"].append(" ".join(gi))
            res["wall_s"] += dt
            if rc != 0:
                res["status"] = "frontend"
                res["detail"] = (out + err)[-3000:]
                return res
            gb = gb2
        cb = ["cbmc", gb, "--json-ui", "--verbosity", "6", "--drop-unused-functions"]
        if e.checks:
            cb += CHECK_FLAGS
        if e.unwind is not None:
            cb += ["--unwind", str(e.unwind)]
        if e.unwindset:
            cb += ["--unwindset", ",".join(e.unwindset)]
        if e.unwind is not None or e.unwindset:
            cb += ["--unwinding-assertions"]
        ob = e.object_bits or (12 if unit.lang == "cpp" else None)
        if ob:
            cb += ["--object-bits", str(ob)]
        if e.solver == "kissat":
            cb += ["--external-sat-solver", "kissat"]
        elif e.solver in ("cvc5", "z3"):
            cb += ["--" + e.solver]
        cb += e.extra
        if with_trace_for:
            cb += ["--trace", "--property", with_trace_for]
        rc, out, err, dt = _run(cb, e.timeout, e.mem_gb)
        res["cmds"].append(" ".join(cb))
        res["wall_s"] += dt
        open(os.path.join(unit.dir, tag + (".trace" if with_trace_for else "") + ".cbmc.json"), "w").write(out)
        if rc is None:
            res["status"] = "timeout"
            res["detail"] = "cbmc exceeded %ds" % e.timeout
            return res
        try:
            js = json.loads(out)
        except ValueError:
            res["status"] = "solver"
            res["detail"] = "unparseable cbmc output (rc=%s): %s" % (rc, (out + err)[-1500:])
            return res
        results = None
        msgs = []
        for item in js:
            if isinstance(item, dict):
                if "result" in item:
                    results = item["result"]
                if item.get("messageType") in ("ERROR", "WARNING"):
                    msgs.append(item.get("messageText", ""))
        if results is None:
            res["status"] = "solver" if rc not in (0, 10) else "frontend"
            res["detail"] = "no result block (rc=%s): %s" % (rc, " | ".join(msgs)[-2000:])
            return res
        if any("ignoring forall" in m or "ignoring exists" in m for m in msgs):
            res["status"] = "solver"
            res["detail"] = "back end ignored a quantifier: verdicts unusable"
            return res
        for r in results:
            desc = r.get("description", "")
            m = re.match(r'(C\d\d\.[^\s:]+|VACUITY\.[^\s:]+)', desc)
            if m:
                name = m.group(1)
            elif e.enforce and re.search(r'\.(postcondition|precondition)\.', r["property"]):
                name = "%s.%s" % (unit.prop, r["property"])
            else:
                name = "auto:%s [%s]" % (r["property"], desc[:80])
            ob = {"name": name, "cbmc_id": r["property"], "status": r["status"], "description": desc}
            sl = r.get("sourceLocation") or {}
            if sl:
                ob["loc"] = "%s:%s" % (os.path.basename(sl.get("file", "?")), sl.get("line", "?"))
            if "trace" in r:
                ob["trace"] = r["trace"]
            res["obligations"].append(ob)
        return res
    finally:
        _gate.release(mem)


def _flatten(prefix, v, out):
    if not isinstance(v, dict):
        return
    if "members" in v:
        for m in v["members"]:
            nm = m.get("name", "?").split("::")[-1]
            _flatten(prefix + "." + nm, m.get("value", {}), out)
    elif "elements" in v:
        for m in v["elements"]:
            _flatten("%s[%s]" % (prefix, m.get("index", "?")), m.get("value", {}), out)
    elif "data" in v or "binary" in v:
        ent = {}
        if "data" in v:
            ent["data"] = v["data"]
        if "binary" in v:
            ent["binary"] = v["binary"]
        out[prefix] = ent


def trace_inputs(trace):
    """last value of every named program variable (struct members / array elements flattened to
    paths such as A.rd.i or a[3]) in a CBMC json trace"""
    vals = {}
    for st in trace:
        if st.get("stepType") != "assignment" or st.get("hidden"):
            continue
        lhs = st.get("lhs", "")
        if not lhs or lhs.startswith("__CPROVER") or "$" in lhs or "#" in lhs or "!" in lhs:
            continue
        _flatten(lhs, st.get("value", {}), vals)
    return vals

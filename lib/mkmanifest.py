#!/usr/bin/env python3
"""regenerates /verif/MANIFEST.json from the tables below (run after changing what is claimed)"""
import json, os, re
V = os.path.dirname(os.path.dirname(os.path.abspath(__file__)))

CLAIMED = {
 "C01": dict(cat="proof", design="§4 C01",
   text="Contract proof (CBMC, full input domain, loop-free) on the real __hash__/__eq__ text of the leaf number classes "
        "(RealDouble, ComplexDouble, Integer, Rational, Complex, NaN), hash_combine*, Basic::hash and eq: eq(a,b) implies equal "
        "hash for every bit pattern of the data members, including signed zeros and NaNs, same-object and cached-hash cases. "
        "Composite classes Pow, Interval, TwoArgBasic<> (all relationals and two-argument functions), OneArgFunction, Complement, Contains (and unified_eq on RCP operands) are "
        "proved as callers against the CALLEE CONTRACT of their children (abstract children with eq <=> equal rank, equal rank => equal hash; any sharing): eq implies equal hash, hash cache "
        "consistent. Add::__hash__/__eq__ over a two-term dictionary Mul::__hash__/__eq__ over a two-factor ordered dictionary, MultiArgFunction (argument lists <= 3) and FiniteSet (<= 3 elements) are bounded stand-ins (hash_t narrowed to 16 bits in the quick tier; the thorough tier repeats Add, Mul, MultiArgFunction and FiniteSet with the full 64-bit hash_t; not counted as proved). MSymEnginePoly::__eq__ / MIntPoly::__hash__ "
        "and is_constant are a bounded stand-in (<= 2 terms in <= 2 of 4 variables), including equal constants over different variable sets. Other sets, "
        "booleans, other polynomial classes and matrices are not under contract.",
   note="Trusted: stub GMP integer/rational (==, <, mp_get_*), std::complex ==, hand-written dispatch for virtual calls, extraction rules; CBMC tool chain.",
   tech="contract-based deductive verification with CBMC on mechanically extracted function text (route F: loop-free, full domain)"),
 "C02": dict(cat="proof", design="§4 C02",
   text="Contract proof (CBMC, full input domain) on the real compare/__eq__ of the leaf number classes and Basic::__cmp__: result in "
        "{-1,0,1}, zero iff eq, antisymmetric, transitive, for every triple of leaf objects of any classes. NaN doubles violate the "
        "axioms (known finding C02_NAN_DOUBLE): those obligations are proved on the complement. The compare methods of Pow, Interval, TwoArgBasic<>, OneArgFunction, Complement, Contains "
        "(and unified_compare on RCP operands) are proved as callers against the children's contract (children totally ordered by an abstract rank consistent with eq, hash collisions allowed): "
        "the parent is again a three-way total order consistent with eq; RCPBasicKeyLess (hash order, eq, __cmp__) is a strict weak order whose equivalence is eq, given eq => equal hash (C01 used as a lemma). MultiArgFunction::compare, FiniteSet::compare (<= 3 elements), Mul::compare and Add::compare (<= 2 dictionary entries, ordered_compare on the real dict.h templates, Add's map range constructor assumed to sort with the real RCPBasicKeyLess) and MSymEnginePoly::compare for MIntPoly are bounded stand-ins (three polynomials, <= 2 terms in <= 2 of 4 variables; dictionary/set comparison stubs written from dict.h). Other classes not under contract.",
   note="Trusted: as C01; rational '<' is an assumed strict total order consistent with == (GMP).",
   tech="contract-based deductive verification with CBMC on mechanically extracted function text (route F: loop-free, full domain)"),
 "C06": dict(cat="proof", design="§4 C06",
   text="Contract proof (CBMC, loop-free, full domain of the ghost model) on the real text of Infty::add/mul/div/pow/rpow, Infty predicates, "
        "NaN::add/mul/div/pow/rpow and Number::sub/rsub/div/rdiv: the extended-number rule table of the statement (nan absorbs, oo + -oo = nan, "
        "0*oo = nan, finite factor keeps/flips direction, commutativity of + and * when one operand is an infinity or nan). "
        "The clause 'a finite float op a finite number is never exact' is proved at kind level on the in-class arithmetic of RealDouble and ComplexDouble "
        "(add/sub/rsub/mul/div/rdiv dispatchers and their helpers, every kind of the other operand): the result is built as a RealDouble or ComplexDouble, complex iff an operand is; "
        "one deliberate exception (RealDouble times the exact Integer 0 returns the exact 0) is the known finding C06_REALDOUBLE_TIMES_EXACT_ZERO. "
        "Exact x exact dispatch and the values of floating-point results are not under contract.",
   note="Trusted: ghost-number prelude (finite kinds: is_zero/is_positive/... read a ghost value; finite classes forward to the Infty/NaN methods), extraction rules, CBMC.",
   tech="contract-based deductive verification with CBMC on mechanically extracted function text (route F), callers checked against assumed contracts of the finite number classes"),
 "C05": dict(cat="proof", design="§4 C05",
   text="Contract proof (CBMC, loop-free, full 64-bit operand domain) on the real text of the normalisation glue that symengine adds on top of GMP: "
        "Integer::divint/rdiv/powint/pow_negint/neg/addint/subint/mulint and the virtual dispatchers add/sub/mul/div/pow of Integer and Rational (exact x exact: exact normalised value; any other kind: forwarded to the matching reverse operation), Rational::from_mpq (both overloads)/from_two_ints (both)/is_canonical and the inline "
        "addrat/subrat/rsubrat/mulrat/divrat/rdivrat/powrat, Complex::from_mpq/from_two_rats/from_two_nums/is_canonical and Complex::powcomp (imaginary base: q^n times i^(n mod 4) for every exponent sign), against the assumed GMP contracts: "
        "results are normalised (lowest terms, positive denominator, Integer iff denominator 1, real iff imaginary part 0), x/0 is zoo and 0/0 nan, "
        "0**negative is zoo, and every GMP precondition (non-zero denominator/divisor) is discharged at its call site. Exact *values* of the results are "
        "checked only as a bounded stand-in (operands |x| <= 12, table arithmetic) and are not counted as proved. The limb arithmetic itself is GMP's and is assumed.",
   note="Trusted: prelude/exactnum.h (GMP contracts: canonicalize and mpq operators return canonical values; integer_class is a mathematical integer), extraction rules, CBMC.",
   tech="contract-based deductive verification with CBMC on mechanically extracted function text (route F: loop-free, full domain, callers checked against assumed GMP contracts); bounded value check (route B) as stand-in for result values"),
 "C17": dict(cat="model_checking", design="§4 C17",
   text="BOUNDED for the literal clauses, complete for the finite name tables; precedence/associativity NOT covered. Numeric literals: the real Parser::parse_numeric text is executed by CBMC on every string of the tokenizer's NUMERIC "
        "language up to 6 characters (8 thorough): a digit string is the Integer with its base-10 value regardless of leading zeros; a literal with a decimal point or an exponent "
        "is read as a float; Parser::parse_implicit_mul on every IMPLICIT_MUL token of that length: the numeric factor is the longest prefix that reads as a number, the other factor the identifier named by the rest. Function names: the eight name tables of parser.cpp (init_parser_single_arg_functions and the statics of Parser::functionify), extracted row by row on every run, against the specification contracts/C17/name_spec.h: every conventional name is present and is mapped to the corresponding library function (arcsech -> asech, ln -> log, GreaterThan -> Ge ...), an unlisted name maps to the same-named function; every row visited (complete). The And/Or/Nand/Nor and Xor/Xnor branches of functionify (bounded, <= 3 operands): operands type-tested, connective applied to the set (resp. the ordered sequence) of all operands. The argument-count dispatch of functionify (loop-free, operand counts 0..4, every found/not-found combination of the tables): the table of the written arity answers, exactly one row is called with the operands in order. Precedence/associativity (bison LALR tables) are NOT covered.",
   note="Trusted: std::string/strtol (ISO C)/errno/fast_float stubs; the NUMERIC token language transcribed from tokenizer.re; std::map initializer-list/find contract (first entry of a key wins); CBMC.",
   tech="contract-based verification with CBMC on mechanically extracted function text: pre/postcondition harness with libc/std::string stubs; bounded model checking (string length) as stand-in for the literal clauses; exhaustive table contract (every row of the extracted name tables against a specification table) for the function-name clause"),
 "C20": dict(cat="proof", design="§4 C20",
   text="A SMALL PART of the property: contract proof (CBMC, full domain: all 256 byte values) that load_typeid returns exactly the in-range type codes unchanged and never returns "
        "normally on an out-of-range byte (exceptions raised only for out-of-range input); bounded stand-in (every byte string up to 6 characters, 8 thorough) that the validation scan of "
        "load_helper(integer_class&) stays inside the string and lets only strings of the decimal shape reach the integer backend; contract proof that the Rational and Complex loaders, for ANY two exact numbers delivered by the archive, return a normalised number (zoo/nan for a zero denominator) or throw a library exception, never violating a GMP precondition (checked over the real C05 glue). cereal's reader, size fields, sharing references "
        "(load_rcp_basic), direct make_rcp of non-canonical objects and all post-load operations are NOT under contract.",
   note="Trusted: Archive/std::string stubs, integer backend memory-safe on NUL-terminated strings, extraction rules (template header strip), CBMC.",
   tech="contract-based deductive verification with CBMC on mechanically extracted function text (route F full domain for load_typeid; bounded string length for the load_helper scan)"),
 "C24": dict(cat="model_checking", design="§4 C24",
   text="BOUNDED stand-in (not a proof): the real text of ~60 routines of dense_matrix.cpp is executed symbolically by CBMC over the field abstraction GF(3) (GF(5) and 4x4 in the "
        "thorough tier) for EVERY matrix of the stated shape (3x3, 3x4, 2x3; LU/LDL also 4x4), against pre/postconditions that are textbook linear algebra written over the field "
        "tables: entrywise operations, transpose, submatrix, row/column insert/delete/exchange/scale/add (exact data movement); mul_dense_dense = textbook product (also with aliased output); "
        "det_bareis and det_berkowitz = cofactor expansion; char_poly monic with -trace, (-1)^n det and p(A) = 0 (Cayley-Hamilton); L*U = A, P*A = L*U, L*D*L^T = A, fraction-free LDU identity, with the triangular shapes; A*x = b for LU/FFLU/pivoted LU/LDL/fraction-free "
        "Gauss / Gauss-Jordan (with and without pivoting)/diagonal/back substitution solvers; A*A^-1 = I for the four inverse routines; reduced_row_echelon_form and the four pivoted "
        "eliminations: row-equivalent to the input (equal null spaces), echelon shape, pivot columns; pivoting routines never divide by zero on a non-singular input; every index in range; "
        "every developer SYMENGINE_ASSERT at call sites.",
   note="Trusted: field prelude (exact arithmetic is a field; identities of rational functions over Q hold over GF(p) where no division by zero occurs), container stubs, extraction rules, CBMC. QR/cholesky (sqrt), eigen_values, jacobian/diff not covered.",
   tech="contract-based verification with CBMC on mechanically extracted function text: pre/postcondition harnesses per routine over a finite-field abstraction of the exact numbers; bounded model checking (matrix size, field, unwinding assertions) — bounded stand-in"),
 "C25": dict(cat="proof", design="§4 C25",
   text="(1) PROVED: inductive contract proof (CBMC function and loop contracts via goto-instrument --dfcc, every iteration count) of the CSR canonical-form "
        "predicates csr_has_sorted_indices / csr_has_duplicates / csr_has_canonical_format on their real bodies (soundness with ghost indices, completeness "
        "with bounded witnesses, frame, termination, bounds/overflow), the last one modularly against the callee contracts; array lengths capped (K=16 quick, 32 thorough) "
        "by the precondition; likewise the binary search of CSRMatrix::get (result = the stored value of column j in a canonical row, else zero) and the search region of CSRMatrix::set "
        "(k = the insertion point: everything before it smaller, everything from it on >= j) with inductive loop invariants, termination and overflow checks. "
        "(2) BOUNDED stand-in, not counted as proved: the real text of CSRMatrix::get, set (single and two consecutive updates), is_canonical, "
        "csr_sum_duplicates, from_coo, transpose, conjugate, csr_matmat_pass1/2 (thorough tier), csr_diagonal, csr_scale_rows/columns, csr_binop_csr_canonical (add, sub, mul) started from an ARBITRARY canonical matrix "
        "(2x3 quick, plus one long 1x6 row for get/set; 3x3 and 3x2 thorough; entries in GF(3); every sparsity pattern): result canonical (the constructors' SYMENGINE_ASSERT as an obligation) and entry-by-entry "
        "equal to the same operation on the dense expansion read by an independent linear scan; every vector index in range.",
   note="Trusted: signature-only rewrite std::vector<unsigned>& -> pointer (route P); field prelude and vector stubs (route B); csr_sort_indices replaced by its assumed contract (lambda); CBMC tool chain.",
   tech="contract-based deductive verification: CBMC code contracts with loop invariants and decreases clauses (route P), modular --replace-call-with-contract; pre/postcondition harnesses over a finite-field abstraction with bounded unwinding + unwinding assertions (route B) as stand-in for the operations"),
 "C33": dict(cat="model_checking", design="§4 C33",
   text="History quantifier removed by a representation invariant INV (cache = first n >= 10 primes, sieve size >= 1): every public operation "
        "(generate_primes, iterator ctor/dtor/next_prime, clear, set_clear, set_sieve_size) is verified by CBMC on its real text from an ARBITRARY INV state "
        "against the CONTRACT of Sieve::_extend (full domain for cache lengths 10..30) — INV preserved, output exactly the primes up to the limit in order, "
        "iterator yields the next prime without gap or repeat. The contract of Sieve::_extend itself (INV kept, cache not shrunk, covers the limit, every "
        "vector/valarray/slice index in range) is checked only as a BOUNDED stand-in: a grid of concrete (cache length, segment size) x symbolic limit "
        "(quick: lengths 10/12, segments 4/8 bits, symbolic limit <= 120, plus three concrete limits 961/1000/1444 that take the recursive branch over several segments; thorough: more lengths/segments, limits up to 1000 incl. the recursive branch), loops unwound "
        "to exact maxima with unwinding assertions. Not a proof of _extend.",
   note="Trusted: container stubs (std::vector/valarray/slice/upper_bound/copy per the standard), ghost prime table (re-checked every run), CBMC. Known finding C33_ITER_STALE_INDEX (read past size() after the shared cache was cleared) is reported as KNOWN-FINDING.",
   tech="contract-based deductive verification with CBMC on mechanically extracted function text: operations checked against the callee contract of _extend from an arbitrary invariant state (invariant induction over histories); bounded model checking (--unwindset + unwinding assertions) as the stand-in for _extend's own contract"),
 "C38": dict(cat="model_checking", design="§4 C38",
   text="BOUNDED stand-in (not a proof): the real generate_fdiff_weights_vector text is executed symbolically by CBMC over the field abstraction GF(p) for every grid "
        "of pairwise distinct points and every centre (quick: 3 and 4 points over GF(5), 4 points over GF(7), max_deriv 2; thorough: up to 6 points over GF(7), max_deriv 3): "
        "the weights of order k applied to every monomial (x-c)^m, m < grid size, give k! if m = k and 0 otherwise (the property statement on a basis of the polynomials of "
        "degree below the grid size); result size; every index in range; every weight set; no division by zero on a distinct grid. Loops unwound to their exact maxima with unwinding assertions.",
   note="Trusted: field prelude (symengine's exact add/sub/mul/div implement a field; an identity of rational functions over Q holds over GF(p) where no division by zero occurs), vec_basic stub, extraction rules, CBMC.",
   tech="contract-based verification with CBMC on mechanically extracted function text: pre/postcondition harness over a finite-field abstraction of the exact numbers; bounded model checking (grid size, field, unwinding assertions) — bounded stand-in"),
 "C34": dict(cat="proof", design="§4 C34",
   text="(1) PROVED (CBMC, loop-free, full domain) on the real text of tribool.h (Kleene and/or/not/andwk/orwk, conversions: every combination of sound answers is sound) and of the "
        "Number/Constant/Infty/NaN rules of the Zero/Positive/Negative/NonPositive/NonNegative/Real/Complex/Rational/Integer/Finite visitors against the ghost-number contracts: every "
        "definite answer is true of the operand's value for every number kind and the five named constants. (2) BOUNDED stand-in, not counted as proved: the combination rules "
        "RealVisitor::bvisit(Add), RealVisitor::bvisit(Mul), PositiveVisitor::bvisit(Add), IntegerVisitor::bvisit(Add/Mul), ComplexVisitor::bvisit(Add/Mul) are checked against the CONTRACT of the recursive call (any sound answer about a child's ghost "
        "complex value) for at most 2 terms/factors with small integer parts and numeric coefficients of any kind (real, complex, non-finite): a definite answer is true of the sum/product. Two unsound 'not real' rules are recorded as known findings "
        "(C34_REAL_TIMES_POSSIBLY_ZERO, C34_REAL_SUM_OF_NONREAL_TERMS) and the obligations are discharged on the complement of those input classes. Assumptions::is_*, the other visitors' "
        "Add/Mul/Pow rules and function-specific rules are not under contract.",
   note="Trusted: ghost-number prelude, hand-written visitor dispatch table, mathematical facts about pi/E/EulerGamma/Catalan/GoldenRatio, recursive-call contract, extraction rules, CBMC.",
   tech="contract-based deductive verification with CBMC on mechanically extracted function text (route F: loop-free, full domain of the ghost model); combination rules as callers checked against the callee contract of the recursive visitor call (bounded number of children)"),
 "C29": dict(cat="proof", design="§4 C29",
   text="Contract proof (CBMC, loop-free) on the real text of Eq/Ne/Le/Ge/Lt/Gt from logic.cpp against assumed contracts of Number::sub, is_negative, "
        "is_zero and eq: for all pairs of real numbers of any kind (integer, rational, double, +-oo) the four order relations are true exactly when "
        "the numeric relation holds, Le = not Lt swapped, Ge = Le swapped, Eq/Ne symmetric and negations; invalid operands are rejected; symbolic "
        "operands give the relation with operands in the stated order; logical_not of the four relational classes negates the relation (order relations with swapped operands). The 'after substitution' clause is not covered.",
   note="Trusted: ghost-number prelude (sub exact on ghost values; for doubles IEEE subtraction has the sign of the exact difference), __cmp__ total order (C02), extraction rules, CBMC.",
   tech="contract-based deductive verification with CBMC on mechanically extracted function text (route F), callers checked against assumed contracts of Number::sub/is_negative/eq"),
}

NA = {
 "C03": "\"every API result is canonical\" quantifies over all call sequences and rests on is_canonical() methods over RCP trees and hash maps that CBMC's C++ front end cannot compile; the canonical-form invariants within reach (CSR format, rationals with den 1) are discharged under C25 and C05.",
 "C04": "Uniqueness of canonical Add/Mul forms lives in unordered_map-keyed dictionaries of RCP trees with GMP coefficients; no stub abstraction keeps the merge rules' meaning, and permutation/bracketing is a quantifier over programs.",
 "C07": "Needs a denotational semantics of expression DAGs over the complex numbers with principal branches; CBMC has no reals, no complex transcendental functions, no inductive expression type.",
 "C08": "Same as C07, plus exact rational-multiple-of-pi tables whose correctness is a trigonometric fact outside any decidable theory available here.",
 "C09": "expand works on umap_basic_num with GMP multinomial coefficients; value preservation/idempotence need the semantics of C07.",
 "C10": "Derivative correctness needs real analysis; DiffVisitor is double-dispatch C++ over RCP trees.",
 "C11": "Substitution visitors traverse RCP DAGs with a map_basic_basic cache; 'same value' needs C07's semantics.",
 "C12": "Accuracy 'within rounding of the exact value' needs a model of libm; CBMC treats sin/exp/pow/tgamma as uninterpreted, so only syntactic formula equality could be stated, which would raise false alarms on equivalent formulas.",
 "C13": "LambdaDoubleVisitor builds std::function closures from lambdas; the front end rejects lambdas and std::function has no model.",
 "C14": "LLVM is not installed (WITH_LLVM=no); the code is compiled out and JIT output is outside any source-level contract.",
 "C15": "The object of the property is the emitted C text for every expression; a contract on the printer cannot state 'compiles to a program computing the value'.",
 "C16": "Printer/parser round trip is a property of std::ostringstream string building and LALR tables over all expressions; no contract within reach.",
 "C18": "The tokenizer is a re2c goto-DFA with interleaved cycles: CBMC's per-back-edge unwinding gave no verdict in 500 s for one lex call on a 6-byte buffer, loop contracts cannot be attached to goto cycles, the bison driver uses std::string/exceptions, and 'never hangs' is a termination property CBMC does not check.",
 "C19": "cereal archives are variadic-template C++; round-trip equality needs eq over RCP trees.",
 "C21": "Polynomial containers are std::map<unsigned, integer_class> templates (ODictWrapper CRTP); Kronecker substitution is GMP bit manipulation on multi-limb integers, which cannot be bit-blasted.",
 "C22": "Same as C21 with unordered_map<vec_int,...> and variable-set reconciliation over set_basic.",
 "C23": "GaloisFieldDict is written with range-for, auto, reverse iterators, swap and GMP modular inverses throughout; extraction would be a hand translation (a model); factorisation correctness is beyond SAT-sized instances.",
 "C26": "Merge rules dispatch on dynamic type over vec_basic of matrix expressions; only index loops are C-like and their soundness reduces to the tribool conjunction proved under C34 and the dense predicates under C24.",
 "C27": "Set algebra is recursive case analysis over RCP Set objects with set_basic containers; pointwise membership needs real-number semantics for interval endpoints of arbitrary expressions.",
 "C28": "and_or, logical_xor operate on set_boolean (ordered by C02's comparison) and recursive flattening; truth-value equivalence needs evaluation of relational atoms.",
 "C30": "Closed-form root formulas need algebraic-number semantics (radicals, complex cube roots); solution-set completeness is not a per-function postcondition CBMC can state.",
 "C31": "Series coefficients are exact rationals/expressions (GMP + Expression); Taylor-coefficient correctness is analysis, and the recurrences are CRTP templates.",
 "C32": "The functions are thin glue over GMP or number-theoretic algorithms whose correctness rests on mathematical lemmas over big integers; bit-blasting multiplication/modular exponentiation does not terminate beyond ~8 bits, which would be testing, not proof.",
 "C35": "refine/simplify rewrite RCP trees; 'same value under assumptions' needs C07's semantics plus an assumptions model.",
 "C36": "Same as C07 for numer/denom, real/imag and trigonometric rewrites.",
 "C37": "CSE is graph rewriting over umap_basic_basic/std::function with fresh-symbol generation; faithfulness needs eq after back-substitution.",
 "C39": "Visitors over RCP trees returning set_basic; no C-like kernel.",
 "C40": "Quantifies over all API programs and leak-freedom of intrusive refcounting in a template (RCP<T> uses rvalue-reference moves the front end cannot type-check); memory-safety obligations of the kernels under contract are reported under C24/C25/C33 instead.",
 "C41": "Concurrency under a non-default build; CBMC has no model of std::atomic in this C++ subset and this technique family is weak or silent on concurrency.",
 "C42": "Every C-API function is try/catch (CWRAPPER_BEGIN/END); goto-cc aborts on try/catch, and equality with the C++ API is a 2-program property.",
 "C43": "A relational property between different builds of the library (Boost.Multiprecision/FLINT/Piranha not installed); no per-function contract compares two compilations.",
 "C44": "String well-formedness of printers over all expressions; no contract within reach.",
 "C45": "The configuration is not built here (MPFR off, MPC headers absent), and 'correct to the requested precision' needs a model of MPFR/MPC rounding and of the transcendental functions.",
 "C46": "Contejean-Devie is a stack-driven search whose termination and completeness are a mathematical theorem over unbounded integer vectors; the body is std::vector<DenseMatrix>/vector<vector<bool>> C++ and no unwinding bound closes the while loop.",
}
# claimed-in-design but not yet built: listed as not applicable *for now* with that reason, replaced as they are built
PENDING = {'C24': 'claimed in DESIGN.md §4 but its check is not built yet in this commit; not claimed until bin/check C24 exists'}

def main():
    ids = [json.loads(l)["id"] for l in open(os.path.join(V, "properties.jsonl"))]
    checks = []
    for pid in ids:
        if pid in CLAIMED:
            c = CLAIMED[pid]
            checks.append({
                "property_id": pid,
                "quick_cmd": "bin/check %s --tier quick" % pid,
                "thorough_cmd": "bin/check %s --tier thorough" % pid,
                "evidence_file": "/verif/evidence/%s.json" % pid,
                "replay_cmd_template": "bin/check %s --replay {path}" % pid,
                "engine": "cbmc-contracts",
                "level_claimed": {"category": c["cat"], "text": c["text"], "design_ref": "DESIGN.md " + c["design"]},
                "level_note": c["note"],
                "technique": c["tech"],
            })
    na = []
    for pid in ids:
        if pid in CLAIMED:
            continue
        reason = NA.get(pid) or PENDING.get(pid)
        assert reason, pid
        na.append({"property_id": pid, "reason": reason})
    m = {
        "version": 1,
        "setup_cmd": "bin/setup",
        "hooks": {"guard": "SYMENGINE_VERIF", "enable": "none needed: checks extract function text from /repo's working tree on every run; no instrumentation is compiled into symengine",
                  "baseline_off_cmd": "cmake --build /repo/_build -j16 && ctest --test-dir /repo/_build -j8 --timeout 900",
                  "source_commits": [], "add_only": True},
        "engines": [{"name": "cbmc-contracts", "path": "bin/check", "serves_properties": [c["property_id"] for c in checks],
                     "kind_free_text": "contract-based deductive verification: per-function contracts (requires/ensures/assigns/loop invariants) on function text extracted mechanically from /repo on every run, discharged by CBMC 6.11 (goto-cc, goto-instrument --dfcc, cbmc + kissat); native replay of counterexamples against libsymengine built from the working tree"}],
        "checks": checks,
        "not_applicable": na,
        "notes": "Routes: P = inductive proof with loop contracts (C text), F = loop-free full-domain proof, B = bounded stand-in (never counted as proved). See DESIGN.md.",
    }
    json.dump(m, open(os.path.join(V, "MANIFEST.json"), "w"), indent=1)
    print("MANIFEST.json: %d checks, %d not applicable" % (len(checks), len(na)))

if __name__ == "__main__":
    main()

"""native replay: libsymengine built from /repo's working tree + replay/<prop>.cpp drivers"""
import os
import subprocess
import vf

NATIVE = os.path.join(vf.BUILD, "native")


def build_lib():
    """(re)build libsymengine.a from /repo's current working tree, incrementally"""
    os.makedirs(vf.BUILD, exist_ok=True)
    if not os.path.exists(os.path.join(NATIVE, "build.ninja")):
        subprocess.run(["cmake", "-G", "Ninja", "-S", vf.REPO, "-B", NATIVE, "-DBUILD_TESTS=no",
                        "-DBUILD_BENCHMARKS=no", "-DCMAKE_BUILD_TYPE=RelWithDebInfo", "-DCMAKE_CXX_FLAGS=-Wno-error"],
                       check=True, stdout=subprocess.DEVNULL)
    subprocess.run(["cmake", "--build", NATIVE, "-j", str(vf.NCPU)], check=True, stdout=subprocess.DEVNULL)
    return os.path.join(NATIVE, "symengine", "libsymengine.a")


def build_driver(prop):
    lib = build_lib()
    src = os.path.join(vf.VERIF, "replay", prop + ".cpp")
    exe = os.path.join(vf.BUILD, "replay_" + prop)
    extra = []
    for line in open(src):
        if line.startswith("// VERIF-BUILD:"):      # extra sources / flags of this driver ({REPO} = the tree under check)
            extra += line[len("// VERIF-BUILD:"):].replace("{REPO}", vf.REPO).split()
    cmd = ["g++", "-std=c++11", "-O1", "-g", "-I", vf.REPO, "-I", NATIVE, "-I", os.path.join(vf.VERIF, "replay"),
           src] + extra + [lib, "-lgmp", "-o", exe]
    subprocess.run(cmd, check=True)
    return exe


def run_replay(prop, args, timeout=120):
    exe = build_driver(prop)
    env = dict(os.environ, ASAN_OPTIONS="detect_leaks=0:exitcode=23")
    p = subprocess.run([exe] + [str(x) for x in args], stdout=subprocess.PIPE, stderr=subprocess.STDOUT, timeout=timeout, env=env)
    return p.returncode, p.stdout.decode(errors="replace")

// native replay for C34: the real is_* queries on the counterexample number, against its exact value
#include "ghost.h"
#include <symengine/test_visitors.h>
static int bad = 0;
static void chk(const char *name, tribool t, bool truth)
{
    std::cout << name << " = " << (is_true(t) ? "true" : is_false(t) ? "false" : "indeterminate") << " (actually " << (truth ? "true" : "false") << ")\n";
    if ((is_true(t) && !truth) || (is_false(t) && truth)) { std::cout << "REPRODUCED: " << name << " gives an unsound definite answer\n"; bad = 1; }
}
#include <symengine/assumptions.h>
#include <symengine/sets.h>
#include <symengine/mul.h>
#include <symengine/add.h>
// combination rules (unit 'combination_rules'): the abstract children are concretised as symbols constrained by real-number
// assumptions (sound answer 'true'), I times such a symbol (sound answer 'false'); the query is evaluated under the assumptions
// and compared with the value after substituting numbers that satisfy them.
static int combination(const std::string &ob, bool kf)
{
    RCP<const Symbol> x = symbol("x"), y = symbol("y"), z = symbol("z");
    set_basic s; s.insert(contains(x, reals())); s.insert(contains(y, reals())); s.insert(contains(z, reals()));
    Assumptions as(s);
    struct W { RCP<const Basic> e; map_basic_basic sub; };
    std::vector<W> ws;
    // witnesses of the KNOWN-FINDING input classes are used only when the full-domain (known finding) run is replayed (kf=1)
    if (ob.find("ComplexVisitor") != std::string::npos) {
        // is_complex = "a finite complex number": a definite true with a non-finite operand is wrong at some point of the domain
        set_basic sc; sc.insert(contains(x, complexes())); sc.insert(contains(y, complexes())); Assumptions ac(sc);
        for (auto &ee : {mul(Inf, x), mul(ComplexInf, x), mul(Nan, x), mul(mul(Inf, x), y), add(x, y), mul(x, y)}) {
            tribool q = is_complex(*ee, &ac);
            RCP<const Basic> val = ee->subs({{x, integer(1)}, {y, integer(1)}});
            tribool v = is_complex(*val);
            std::cout << "is_complex(" << ee->__str__() << " | x, y complex) = " << (is_true(q) ? "true" : is_false(q) ? "false" : "indeterminate") << "; at x=1 y=1 the value is " << val->__str__() << "\n";
            if (is_true(q) && is_false(v)) { std::cout << "REPRODUCED: the definite answer is wrong for an assignment that satisfies the assumptions\n"; bad = 1; }
        }
        return bad;
    }
    if (ob.find("RealVisitor.Mul") != std::string::npos) { ws.push_back({mul(add(x, I), add(y, I)), {{x, integer(1)}, {y, integer(-1)}}}); ws.push_back({mul(mul(add(x, I), sub(x, I)), y), {{x, integer(2)}, {y, integer(3)}}});
        if (kf) { ws.push_back({mul(I, x), {{x, zero}}}); ws.push_back({mul(mul(I, x), y), {{x, integer(1)}, {y, zero}}}); } }
    else if (ob.find("RealVisitor.Add") != std::string::npos) { ws.push_back({add(x, mul(y, z)), {{x, integer(1)}, {y, integer(2)}, {z, integer(3)}}});
        if (kf) { ws.push_back({add(x, sub(mul(I, y), mul(I, z))), {{x, integer(2)}, {y, integer(1)}, {z, integer(1)}}}); ws.push_back({add(x, mul(I, y)), {{x, integer(2)}, {y, zero}}}); } }
    else if (ob.find("PositiveVisitor.Add") != std::string::npos || ob.find("IntegerVisitor") != std::string::npos) {
        // non-strict sign assumptions / mixed integer-real knowledge
        set_basic s2; s2.insert(Le(x, zero)); s2.insert(Le(y, zero)); s2.insert(contains(z, reals()));
        Assumptions a2(s2);
        RCP<const Basic> e = sub(mul(minus_one, x), y), v0 = e->subs({{x, zero}, {y, zero}});
        tribool q = is_positive(*e, &a2);
        std::cout << "is_positive(" << e->__str__() << " | x <= 0, y <= 0) = " << (is_true(q) ? "true" : is_false(q) ? "false" : "indeterminate") << "; at x=0 y=0 the value is " << v0->__str__() << "\n";
        if (is_true(q)) { std::cout << "REPRODUCED: the definite answer is wrong for an assignment that satisfies the assumptions\n"; bad = 1; }
        RCP<const Symbol> n = symbol("n"), u = symbol("u");
        set_basic s3; s3.insert(contains(n, integers())); s3.insert(contains(u, reals()));
        Assumptions a3(s3);
        for (auto &ee : {add(n, u), add(u, n), add(add(n, u), x)}) {
            tribool qi = is_integer(*ee, &a3);
            std::cout << "is_integer(" << ee->__str__() << " | n integer, u real) = " << (is_true(qi) ? "true" : is_false(qi) ? "false" : "indeterminate") << "\n";
            if (is_true(qi)) { std::cout << "REPRODUCED: u = 1/2, n = 0 gives a non-integer\n"; bad = 1; }
        }
        // a coefficient that is neither positive nor negative nor zero (complex, nan, zoo): x + I with x > 0 is not positive
        {
            set_basic s4; s4.insert(Gt(x, zero)); Assumptions a4(s4);
            for (auto &ee : {add(x, I), add(x, Nan), add(add(x, y), I)}) {
                tribool qp = is_positive(*ee, &a4);
                std::cout << "is_positive(" << ee->__str__() << " | x > 0) = " << (is_true(qp) ? "true" : is_false(qp) ? "false" : "indeterminate") << "\n";
                if (is_true(qp)) { std::cout << "REPRODUCED: at x = 1 the value " << ee->subs({{x, integer(1)}, {y, integer(1)}})->__str__() << " is not a positive real\n"; bad = 1; }
            }
        }
        if (bad || ob.find("IntegerVisitor") != std::string::npos) return bad;
    }
    if (ob.find("PositiveVisitor.Add") != std::string::npos) { ws.push_back({add(x, y), {{x, integer(1)}, {y, integer(-2)}}}); ws.push_back({add(mul(x, x), integer(1)), {{x, zero}}}); }
    else return 2;
    for (auto &w : ws) {
        RCP<const Basic> val = w.e->subs(w.sub);
        bool positive = ob.find("Positive") != std::string::npos;
        tribool q = positive ? is_positive(*w.e, &as) : is_real(*w.e, &as);
        tribool v = positive ? is_positive(*val) : is_real(*val);
        std::cout << (positive ? "is_positive(" : "is_real(") << w.e->__str__() << " | x, y, z real) = " << (is_true(q) ? "true" : is_false(q) ? "false" : "indeterminate") << "; at";
        for (auto &p : w.sub) std::cout << " " << p.first->__str__() << "=" << p.second->__str__(); std::cout << " the value is " << val->__str__() << "\n";
        if ((is_true(q) && is_false(v)) || (is_false(q) && is_true(v))) { std::cout << "REPRODUCED: the definite answer is wrong for an assignment that satisfies the assumptions\n"; bad = 1; }
    }
    return bad;
}
int main(int argc, char **argv)
{
    if (argc < 2) return 3;
    Args a = parse_args(argc, argv);
    if (std::string(argv[1]).find(".predicates.") != std::string::npos) return predicates(a);
    if (std::string(argv[1]).find("Visitor.Add") != std::string::npos || std::string(argv[1]).find("Visitor.Mul") != std::string::npos || std::string(argv[1]).find("Visitor.AddMul") != std::string::npos) return combination(argv[1], has(a, "kf"));
    if (!has(a, "a_type")) return 3;
    RCP<const Basic> x = ghost_obj(a, "a");
    long c = int_of(a, "a_cls"), v = int_of(a, "a_v");
    bool fin = c == G_FIN;
    std::cout << "x = " << x->__str__() << "\n";
    try {
        chk("is_zero", is_zero(*x), fin && v == 0);
        chk("is_positive", is_positive(*x), (fin && v > 0) || c == G_PINF);
        chk("is_negative", is_negative(*x), (fin && v < 0) || c == G_NINF);
        chk("is_nonpositive", is_nonpositive(*x), (fin && v <= 0) || c == G_NINF);
        chk("is_nonnegative", is_nonnegative(*x), (fin && v >= 0) || c == G_PINF);
        chk("is_real", is_real(*x), fin);
        chk("is_complex", is_complex(*x), fin || c == G_CPLX);
        if (c != G_NANV) chk("is_finite", is_finite(*x), fin || c == G_CPLX);
    } catch (SymEngineException &e) { std::cout << "exception: " << e.what() << "\n"; }
    return bad;
}

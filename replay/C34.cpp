// native replay for C34: the real is_* queries on the counterexample number, against its exact value
#include "ghost.h"
#include <symengine/test_visitors.h>
static int bad = 0;
static void chk(const char *name, tribool t, bool truth)
{
    std::cout << name << " = " << (is_true(t) ? "true" : is_false(t) ? "false" : "indeterminate") << " (actually " << (truth ? "true" : "false") << ")\n";
    if ((is_true(t) && !truth) || (is_false(t) && truth)) { std::cout << "REPRODUCED: " << name << " gives an unsound definite answer\n"; bad = 1; }
}
int main(int argc, char **argv)
{
    if (argc < 2) return 3;
    Args a = parse_args(argc, argv);
    if (!has(a, "a_type")) return 3;
    RCP<const Basic> x = ghost_obj(a, "a");
    long c = int_of(a, "a_cls"), v = int_of(a, "a_v");
    bool fin = c == G_FIN;
    std::cout << "x = " << x->__str__() << "\n";
    try {
        chk("is_zero", is_zero(*x), fin && v == 0);
        chk("is_positive", is_positive(*x), (fin && v > 0) || c == G_PINF);
        chk("is_negative", is_negative(*x), (fin && v < 0) || c == G_NINF);
        chk("is_nonpositive", is_nonpositive(*x), (fin && v <= 0) || c == G_NINF);
        chk("is_nonnegative", is_nonnegative(*x), (fin && v >= 0) || c == G_PINF);
        chk("is_real", is_real(*x), fin);
        chk("is_complex", is_complex(*x), fin || c == G_CPLX);
        if (c != G_NANV) chk("is_finite", is_finite(*x), fin || c == G_CPLX);
    } catch (SymEngineException &e) { std::cout << "exception: " << e.what() << "\n"; }
    return bad;
}

// build the real leaf number object described by a CBMC counterexample slot (contracts/common/leafnum.cpp: struct Slot)
#pragma once
#include "common.h"
using namespace SymEngine;
static RCP<const Basic> slot(const Args &a, const std::string &s, const std::string &kindvar)
{
    long k = int_of(a, kindvar);
    switch (k) {
        case 1: return real_double(double_of(a, s + ".rd.i"));
        case 2: return complex_double(std::complex<double>(double_of(a, s + ".cd.i.re"), double_of(a, s + ".cd.i.im")));
        case 3: return integer(integer_class((long)int_of(a, s + ".in.i.v")));
        case 4: {
            long n = int_of(a, s + ".ra.i.num.v"), d = int_of(a, s + ".ra.i.den.v");
            return Rational::from_two_ints(n, d);     // canonicalises: may become an Integer (stub class was wider)
        }
        case 5: {
            rational_class re(integer_class((long)int_of(a, s + ".co.real_.num.v")), integer_class((long)int_of(a, s + ".co.real_.den.v")));
            rational_class im(integer_class((long)int_of(a, s + ".co.imaginary_.num.v")), integer_class((long)int_of(a, s + ".co.imaginary_.den.v")));
            canonicalize(re); canonicalize(im);
            return Complex::from_mpq(re, im);
        }
        default: return Nan;
    }
}

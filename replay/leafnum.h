// build the real leaf number object described by a CBMC counterexample slot (contracts/common/leafnum.cpp: struct Slot)
#pragma once
#include "common.h"
using namespace SymEngine;
// a stub integer is a 128-bit two's complement word (values beyond one limb): rebuild it as an integer_class
static integer_class big_of(const Args &a, const std::string &k)
{
    auto it = a.find(k);
    if (it == a.end()) return integer_class(0);
    const std::string &v = it->second;
    bool bin = v.size() > 64; for (char c : v) if (c != '0' && c != '1') bin = false;
    if (!bin) return integer_class((long)int_of(a, k));
    integer_class r(0), two(2);
    for (char c : v) { r = r * two; if (c == '1') r = r + integer_class(1); }
    if (v[0] == '1') { integer_class m(1); for (size_t i = 0; i < v.size(); i++) m = m * two; r = r - m; }
    return r;
}
static RCP<const Basic> slot(const Args &a, const std::string &s, const std::string &kindvar)
{
    long k = int_of(a, kindvar);
    switch (k) {
        case 1: return real_double(double_of(a, s + ".rd.i"));
        case 2: return complex_double(std::complex<double>(double_of(a, s + ".cd.i.re"), double_of(a, s + ".cd.i.im")));
        case 3: return integer(big_of(a, s + ".in.i.v"));
        case 4: {
            return Rational::from_two_ints(*integer(big_of(a, s + ".ra.i.num.v")), *integer(big_of(a, s + ".ra.i.den.v")));     // canonicalises: may become an Integer (stub class was wider)
        }
        case 5: {
            rational_class re(big_of(a, s + ".co.real_.num.v"), big_of(a, s + ".co.real_.den.v"));
            rational_class im(big_of(a, s + ".co.imaginary_.num.v"), big_of(a, s + ".co.imaginary_.den.v"));
            canonicalize(re); canonicalize(im);
            return Complex::from_mpq(re, im);
        }
        default: return Nan;
    }
}

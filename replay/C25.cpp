// VERIF-BUILD: {REPO}/symengine/sparse_matrix.cpp -D_GLIBCXX_ASSERTIONS
// native replay for C25 (CSR operations): the real sparse_matrix.cpp is compiled into this driver with libstdc++
// assertions on (an out-of-range vector access in the real code aborts), the counterexample matrices are rebuilt
// with the same small integers (now over Q) and every operation is compared entry by entry with dense arithmetic.
// Arguments: <obligation> NR=.. NC=.. M.p_.d[k]=.. M.j_.d[k]=.. M.x_.d[k].b.v=.. (A./B. likewise) si= sj= sv= op= ...
#include "common.h"
#include <symengine/matrix.h>
#include <symengine/add.h>
#include <symengine/mul.h>
#include <sys/wait.h>
#include <unistd.h>
#include <tuple>
using namespace SymEngine;
typedef std::vector<std::vector<RCP<const Basic>>> Dense;
static unsigned NR, NC;
static long geti(const Args &a, const std::string &k, long dflt) { return has(a, k) ? int_of(a, k) : dflt; }
static bool build(const Args &a, const std::string &pre, unsigned rows, std::vector<unsigned> &p, std::vector<unsigned> &j, vec_basic &x)
{
    p.clear(); j.clear(); x.clear();
    for (unsigned k = 0; k <= rows; k++) { if (!has(a, pre + ".p_.d[" + std::to_string(k) + "]")) return false; p.push_back((unsigned)int_of(a, pre + ".p_.d[" + std::to_string(k) + "]")); }
    unsigned nnz = p[rows];
    for (unsigned k = 0; k < nnz; k++) {
        j.push_back((unsigned)geti(a, pre + ".j_.d[" + std::to_string(k) + "]", 0));
        x.push_back(integer(geti(a, pre + ".x_.d[" + std::to_string(k) + "].b.v", 1)));
    }
    return true;
}
static Dense dense_of(const CSRMatrix &M)
{
    std::vector<unsigned> p, j; vec_basic x; std::tie(p, j, x) = M.as_vectors();
    Dense D(M.nrows(), std::vector<RCP<const Basic>>(M.ncols(), zero));
    for (unsigned r = 0; r < M.nrows(); r++) for (unsigned k = p[r]; k < p[r + 1]; k++) D[r][j[k]] = add(D[r][j[k]], x[k]);
    return D;
}
static bool same(const Dense &A, const Dense &B, const char *what)
{
    for (size_t i = 0; i < A.size(); i++) for (size_t j = 0; j < A[i].size(); j++)
        if (!eq(*A[i][j], *B[i][j])) { std::cout << "REPRODUCED: " << what << ": entry (" << i << "," << j << ") is " << A[i][j]->__str__() << ", dense arithmetic gives " << B[i][j]->__str__() << "\n"; return false; }
    return true;
}
static bool canon(const CSRMatrix &M, const char *what) { if (!M.is_canonical()) { std::cout << "REPRODUCED: " << what << ": result is not in canonical CSR format\n"; return false; } return true; }
static void show(const CSRMatrix &M, const char *name)
{
    std::vector<unsigned> p, j; vec_basic x; std::tie(p, j, x) = M.as_vectors();
    std::cout << name << ": " << M.nrows() << "x" << M.ncols() << " p=["; for (unsigned v : p) std::cout << v << " "; std::cout << "] j=["; for (unsigned v : j) std::cout << v << " ";
    std::cout << "] x=["; for (auto &v : x) std::cout << v->__str__() << " "; std::cout << "]\n";
}
static int run(const std::string &ob, const Args &a)
{
    NR = (unsigned)geti(a, "NR", 2); NC = (unsigned)geti(a, "NC", 3);
    std::vector<unsigned> p, j; vec_basic x;
    int bad = 0;
    if (ob.find("from_coo") != std::string::npos || ob.find("CSRMatrix.ctor") != std::string::npos) {
        unsigned nnz = (unsigned)geti(a, "ci.n", geti(a, "nnz", 0)); std::vector<unsigned> ci, cj; vec_basic cx; Dense D(NR, std::vector<RCP<const Basic>>(NC, zero));
        for (unsigned k = 0; k < nnz; k++) {
            ci.push_back((unsigned)geti(a, "ci.d[" + std::to_string(k) + "]", 0)); cj.push_back((unsigned)geti(a, "cj.d[" + std::to_string(k) + "]", 0));
            cx.push_back(integer(geti(a, "cx.d[" + std::to_string(k) + "].b.v", 1)));
            D[ci[k]][cj[k]] = add(D[ci[k]][cj[k]], cx[k]);
            std::cout << "(" << ci[k] << "," << cj[k] << ")=" << cx[k]->__str__() << " ";
        }
        std::cout << "-> from_coo\n";
        CSRMatrix M = CSRMatrix::from_coo(NR, NC, ci, cj, cx); show(M, "result");
        if (!canon(M, "from_coo")) bad = 1;
        else if (!same(dense_of(M), D, "from_coo")) bad = 1;      // dense_of on a corrupt matrix may itself go out of range: only after canon()
        for (unsigned r = 0; r < NR && !bad; r++) for (unsigned c = 0; c < NC; c++) if (!eq(*M.get(r, c), *D[r][c])) { std::cout << "REPRODUCED: from_coo then get(" << r << "," << c << ") = " << M.get(r, c)->__str__() << ", coordinate list sums to " << D[r][c]->__str__() << "\n"; bad = 1; }
        return bad;
    }
    if (ob.find("csr_matmat") != std::string::npos) {
        // two-pass product with the scipy calling protocol; B deliberately has more columns than A
        unsigned NK2 = (unsigned)geti(a, "NK2", NC + 1);
        std::vector<unsigned> pa, ja, pb, jb; vec_basic xa, xb;
        if (!build(a, "A", NR, pa, ja, xa) || !build(a, "B", NC, pb, jb, xb)) { pa = {0, 1}; ja = {0}; xa = {integer(2)}; pb = {0, 1}; jb = {2}; xb = {integer(5)}; NR = 1; NC = 1; NK2 = 3; }
        CSRMatrix A(NR, NC, pa, ja, xa), B(NC, NK2, pb, jb, xb); show(A, "A"); show(B, "B");
        CSRMatrix C1(NR, NK2);
        csr_matmat_pass1(A, B, C1);
        std::vector<unsigned> pc, jc; vec_basic xc; std::tie(pc, jc, xc) = C1.as_vectors();
        CSRMatrix C2(NR, NK2, pc, std::vector<unsigned>(pc.back(), 0), vec_basic(pc.back(), zero));
        csr_matmat_pass2(A, B, C2); show(C2, "A*B");
        Dense DA = dense_of(A), DB = dense_of(B), E(NR, std::vector<RCP<const Basic>>(NK2, zero));
        for (unsigned i = 0; i < NR; i++) for (unsigned k = 0; k < NK2; k++) for (unsigned m = 0; m < NC; m++) E[i][k] = add(E[i][k], mul(DA[i][m], DB[m][k]));
        return same(dense_of(C2), E, "csr_matmat_pass1/2") ? 0 : 1;
    }
    if (ob.find("csr_binop") != std::string::npos) {
        std::vector<unsigned> pa, ja, pb, jb; vec_basic xa, xb;
        if (!build(a, "A", NR, pa, ja, xa) || !build(a, "B", NR, pb, jb, xb)) return 2;
        CSRMatrix A(NR, NC, pa, ja, xa), B(NR, NC, pb, jb, xb); show(A, "A"); show(B, "B");
        Dense DA = dense_of(A), DB = dense_of(B);
        for (int op = 0; op < 3; op++) {
            CSRMatrix C(NR, NC);
            if (op == 0) csr_binop_csr_canonical(A, B, C, add); else if (op == 1) csr_binop_csr_canonical(A, B, C, sub); else csr_binop_csr_canonical(A, B, C, mul);
            Dense E(NR, std::vector<RCP<const Basic>>(NC, zero));
            for (unsigned r = 0; r < NR; r++) for (unsigned c = 0; c < NC; c++) E[r][c] = op == 0 ? add(DA[r][c], DB[r][c]) : (op == 1 ? sub(DA[r][c], DB[r][c]) : mul(DA[r][c], DB[r][c]));
            show(C, op == 0 ? "A+B" : (op == 1 ? "A-B" : "A.*B"));
            if (!canon(C, "csr_binop_csr_canonical") || !same(dense_of(C), E, "csr_binop_csr_canonical")) bad = 1;
        }
        return bad;
    }
    if (!build(a, "M", NR, p, j, x)) { std::cout << "no matrix in the counterexample\n"; return 2; }
    CSRMatrix M(NR, NC, p, j, x); show(M, "M");
    Dense D = dense_of(M);
    if (ob.find("conjugate") != std::string::npos || ob.find("CSRMatrix.ctor") != std::string::npos) {
        CSRMatrix R; M.conjugate(R); show(R, "conjugate");
        if (R.nrows() != NR || R.ncols() != NC) { std::cout << "REPRODUCED: the conjugate of a " << NR << "x" << NC << " matrix is reported as " << R.nrows() << "x" << R.ncols() << "\n"; return 1; }
        if (!canon(R, "conjugate") || !same(dense_of(R), D, "conjugate (real entries)")) return 1;
        return 0;
    }
    if (ob.find("csr_diagonal") != std::string::npos) {
        unsigned N = std::min(NR, NC); DenseMatrix Dg(N, 1);
        csr_diagonal(M, Dg);
        for (unsigned i = 0; i < N; i++) if (!eq(*Dg.get(i, 0), *D[i][i])) { std::cout << "REPRODUCED: csr_diagonal entry " << i << " is " << Dg.get(i, 0)->__str__() << " but A(" << i << "," << i << ") = " << D[i][i]->__str__() << "\n"; bad = 1; }
        return bad;
    }
    if (ob.find("transpose") != std::string::npos) {
        CSRMatrix T = M.transpose(); show(T, "transpose");
        if (!canon(T, "transpose")) return 1;
        Dense DT = dense_of(T);
        for (unsigned r = 0; r < NR; r++) for (unsigned c = 0; c < NC; c++) if (!eq(*DT[c][r], *D[r][c])) { std::cout << "REPRODUCED: transpose entry (" << c << "," << r << ")\n"; bad = 1; }
        return bad;
    }
    if (ob.find("csr_scale") != std::string::npos) {
        for (int rows = 0; rows < 2; rows++) {
            CSRMatrix S = M; unsigned n = rows ? NR : NC; DenseMatrix X(n, 1); Dense E = D;
            for (unsigned k = 0; k < n; k++) { long s = geti(a, "s[" + std::to_string(k) + "]", 2); if (s == 0) s = 2; X.set(k, 0, integer(s)); }
            for (unsigned r = 0; r < NR; r++) for (unsigned c = 0; c < NC; c++) E[r][c] = mul(D[r][c], X.get(rows ? r : c, 0));
            if (rows) csr_scale_rows(S, X); else csr_scale_columns(S, X);
            if (!canon(S, "csr_scale") || !same(dense_of(S), E, rows ? "csr_scale_rows" : "csr_scale_columns")) bad = 1;
        }
        return bad;
    }
    // get / set / set sequences: every single update and every pair of updates from the counterexample matrix
    for (unsigned r = 0; r < NR; r++) for (unsigned c = 0; c < NC; c++) if (!eq(*M.get(r, c), *D[r][c])) { std::cout << "REPRODUCED: get(" << r << "," << c << ") = " << M.get(r, c)->__str__() << " but the stored entries give " << D[r][c]->__str__() << "\n"; return 1; }
    for (unsigned s1 = 0; s1 < NR * NC * 3; s1++) for (unsigned s2 = 0; s2 < NR * NC * 3 + 1; s2++) {
        CSRMatrix S = M; Dense E = D;
        unsigned i1 = s1 / (NC * 3), j1 = (s1 / 3) % NC, v1 = s1 % 3;
        S.set(i1, j1, integer(v1)); E[i1][j1] = integer(v1);
        bool two = s2 < NR * NC * 3; unsigned i2 = 0, j2 = 0, v2 = 0;
        if (two) { i2 = s2 / (NC * 3); j2 = (s2 / 3) % NC; v2 = s2 % 3; S.set(i2, j2, integer(v2)); E[i2][j2] = integer(v2); }
        bool ok = S.is_canonical();
        if (ok) for (unsigned r = 0; r < NR && ok; r++) for (unsigned c = 0; c < NC; c++) if (!eq(*S.get(r, c), *E[r][c])) ok = false;
        if (!ok) {
            std::cout << "set(" << i1 << "," << j1 << "," << v1 << ")"; if (two) std::cout << "; set(" << i2 << "," << j2 << "," << v2 << ")"; std::cout << "\n"; show(S, "result");
            if (!S.is_canonical()) std::cout << "REPRODUCED: result of set is not in canonical CSR format\n"; else std::cout << "REPRODUCED: get() after set() disagrees with the dense update\n";
            return 1;
        }
    }
    return 0;
}
int main(int argc, char **argv)
{
    if (argc < 2) return 3;
    Args a = parse_args(argc, argv);
    pid_t pid = fork();
    if (pid == 0) { int rc = 2; try { rc = run(argv[1], a); } catch (std::exception &e) { std::cout << "exception: " << e.what() << "\n"; rc = 2; } std::cout << std::flush; _exit(rc); }
    int st = 0; waitpid(pid, &st, 0);
    if (WIFSIGNALED(st)) { std::cout << "REPRODUCED: the real code died with signal " << WTERMSIG(st) << " (libstdc++ assertion: out-of-range vector access)\n"; return 1; }
    return WEXITSTATUS(st);
}

// native search for composite-class obligations (unit 'composite'): the abstract children of the counterexample cannot be
// concretised one-to-one, so a fixed pool of real children — including pairs that are unequal with equal hashes (5 and
// 5 + 2^64: Integer::__hash__ keeps the low word), zeros of two kinds, symbols — is combined into every object of the class
// through the public API, and the axiom named by the obligation is tested on all pairs / triples.
#pragma once
#include "common.h"
#include <symengine/symbol.h>
#include <symengine/pow.h>
#include <symengine/add.h>
#include <symengine/mul.h>
#include <symengine/functions.h>
#include <symengine/sets.h>
#include <symengine/logic.h>
#include <symengine/polys/msymenginepoly.h>
using namespace SymEngine;
static std::vector<RCP<const MIntPoly>> mpoly_pool();
static std::vector<RCP<const Basic>> composite_pool(const std::string &obl)
{
    RCP<const Basic> x = symbol("x"), y = symbol("y"), z = symbol("z");
    RCP<const Basic> big = add(integer(5), pow(integer(2), integer(64)));
    std::vector<RCP<const Basic>> ch = {x, y, integer(5), big, pow(x, integer(5)), pow(x, big), integer(2), real_double(2.0)};
    std::vector<RCP<const Basic>> objs;
    if (obl.find(".Pow.") != std::string::npos) { for (auto &a : {x, y, z}) for (auto &b : ch) if (!eq(*a, *b)) objs.push_back(pow(a, b)); }
    else if (obl.find(".Interval.") != std::string::npos) {
        std::vector<RCP<const Number>> e = {integer(0), integer(1), integer(2), rcp_static_cast<const Number>(big), NegInf, Inf};
        for (auto &a : e) for (auto &b : e) for (int lo = 0; lo < 2; lo++) for (int ro = 0; ro < 2; ro++) { RCP<const Basic> i = interval(a, b, lo, ro); if (is_a<Interval>(*i)) objs.push_back(i); }
    } else if (obl.find(".TwoArgBasic.") != std::string::npos) { for (auto &a : ch) for (auto &b : ch) { RCP<const Basic> r = Lt(a, b); if (is_a<StrictLessThan>(*r)) objs.push_back(r); RCP<const Basic> k = kronecker_delta(a, b); if (is_a<KroneckerDelta>(*k)) objs.push_back(k); } }
    else if (obl.find(".OneArgFunction.") != std::string::npos) { for (auto &a : ch) { RCP<const Basic> s = sign(a); if (is_a<Sign>(*s)) objs.push_back(s); RCP<const Basic> f = floor(add(a, div(x, integer(3)))); objs.push_back(f); } }
    else if (obl.find(".ordered_compare.") != std::string::npos) {
        std::vector<vec_basic> as = {{x}, {y}, {x, y}, {y, x}, {x, y, z}, {x, x, x}, {big, x}, {integer(5), x}};
        for (auto &v : as) objs.push_back(function_symbol("f", v));
    }
    else if (obl.find(".MIntPoly.") != std::string::npos) { for (auto &m : mpoly_pool()) objs.push_back(m); }
    else if (obl.find(".MultiArgFunction.") != std::string::npos) {
        std::vector<vec_basic> as = {{x}, {y}, {x, y}, {y, x}, {x, y, z}, {x, x, x}, {big, x}, {integer(5), x}, {real_double(0.0), x}, {real_double(-0.0), x}};
        for (auto &v : as) { objs.push_back(function_symbol("f", v)); objs.push_back(function_symbol("g", v)); }
    }
    else if (obl.find(".FiniteSet.") != std::string::npos) {
        std::vector<set_basic> ss = {{x}, {y}, {x, y}, {x, y, z}, {integer(5), x}, {big, x}, {integer(5), big}, {real_double(0.0), x}, {real_double(-0.0), x}, {integer(5), big, x}};
        for (auto &v : ss) { RCP<const Basic> f = finiteset(v); if (is_a<FiniteSet>(*f)) objs.push_back(f); }
    }
    else if (obl.find(".Mul.") != std::string::npos) {
        std::vector<RCP<const Basic>> cf = {integer(2), integer(3), big, real_double(2.0), rational(1, 2)};
        std::vector<RCP<const Basic>> fs = {x, y, pow(x, integer(2)), pow(y, x), pow(x, big), pow(x, integer(5))};
        for (auto &c : cf) for (unsigned i = 0; i < fs.size(); i++) { objs.push_back(mul(c, fs[i])); for (unsigned j = i + 1; j < fs.size(); j++) objs.push_back(mul(c, mul(fs[i], fs[j]))); }
    }
    else if (obl.find(".Add.") != std::string::npos) {
        std::vector<RCP<const Basic>> sums = {add(x, y), add(x, mul(integer(2), y)), add(add(x, y), z)};
        for (auto &s : sums) { objs.push_back(s); objs.push_back(sub(add(s, real_double(1.5)), real_double(1.5))); objs.push_back(add(s, integer(1))); objs.push_back(add(s, real_double(1.0))); objs.push_back(sub(add(s, integer(3)), integer(3))); }
    }
    return objs;
}
static int composite_search(const std::string &obl, bool order_axioms)
{
    std::vector<RCP<const Basic>> o = composite_pool(obl);
    if (o.empty()) return 2;
    std::cout << "searching " << o.size() << " objects built from the child pool\n";
    for (auto &a : o) for (auto &b : o) {
        bool e = eq(*a, *b);
        if (!order_axioms) { if (e && a->hash() != b->hash()) { std::cout << "a = " << a->__str__() << "\nb = " << b->__str__() << "\nREPRODUCED: eq(a,b) but hash(a) != hash(b)\n"; return 1; } continue; }
        if (a->get_type_code() != b->get_type_code()) continue;
        int ab = a->__cmp__(*b), ba = b->__cmp__(*a);
        if (ab < -1 || ab > 1 || (ab == 0) != e || ab != -ba) { std::cout << "a = " << a->__str__() << "\nb = " << b->__str__() << "\ncmp(a,b)=" << ab << " cmp(b,a)=" << ba << " eq=" << e << "\nREPRODUCED: compare is not a three-way order consistent with eq\n"; return 1; }
    }
    if (order_axioms && o.size() <= 150)
        for (auto &a : o) for (auto &b : o) for (auto &c : o) { if (a->get_type_code() != b->get_type_code() || b->get_type_code() != c->get_type_code()) continue;
            int ab = a->__cmp__(*b), bc = b->__cmp__(*c), ac = a->__cmp__(*c);
            if ((ab <= 0 && bc <= 0 && ac > 0) || (ab < 0 && bc <= 0 && ac >= 0)) { std::cout << "a = " << a->__str__() << "\nb = " << b->__str__() << "\nc = " << c->__str__() << "\nREPRODUCED: compare is not transitive\n"; return 1; } }
    std::cout << "not reproduced on the pool\n";
    return 0;
}
// C01.MIntPoly.*: every pair of a pool of small real MIntPoly objects over the variable sets {}, {x}, {y}, {x,y}.
// Pairs of constant polynomials over different variable sets (eq by design) are part of the pool.
static std::vector<RCP<const MIntPoly>> mpoly_pool()
{
    RCP<const Basic> x = symbol("x"), y = symbol("y");
    // generators that are eq but print differently: f(0.0) and f(-0.0)
    RCP<const Basic> fp = function_symbol("f", real_double(0.0)), fm = function_symbol("f", real_double(-0.0));
    std::vector<vec_basic> vs = {{}, {x}, {y}, {x, y}, {fp}, {fm}};
    std::vector<RCP<const MIntPoly>> o;
    for (auto &v : vs) {
        unsigned n = (unsigned)v.size();
        std::vector<vec_uint> es;
        if (n == 0) es = {{}}; else if (n == 1) es = {{0}, {1}, {2}}; else es = {{0, 0}, {1, 0}, {0, 2}, {1, 1}};
        o.push_back(MIntPoly::from_dict(v, {}));
        for (auto &e1 : es) for (long c : {3L, -2L}) {
            o.push_back(MIntPoly::from_dict(v, {{e1, integer_class(c)}}));
            for (auto &e2 : es) if (e1 < e2) o.push_back(MIntPoly::from_dict(v, {{e1, integer_class(c)}, {e2, integer_class(3)}}));
        }
    }
    return o;
}
static int mpoly_search(const std::string &obl)
{
    std::vector<RCP<const MIntPoly>> o = mpoly_pool();
    std::cout << "searching " << o.size() << " MIntPoly objects\n";
    auto constant = [](const MIntPoly &p) { if (p.get_poly().dict_.size() > 1) return false; for (auto &t : p.get_poly().dict_) for (auto k : t.first) if (k) return false; return true; };
    for (auto &a : o) for (auto &b : o) {
        bool e = a->__eq__(*b), same_vars = unified_eq(a->get_vars(), b->get_vars());
        const char *why = nullptr;
        if (obl.find("eq_implies_equal_hash") != std::string::npos) { if (e && a->hash() != b->hash()) why = "eq(a,b) but hash(a) != hash(b)"; }
        else if (obl.find("eq_symmetric") != std::string::npos) { if (e != b->__eq__(*a)) why = "eq is not symmetric"; }
        else if (obl.find("same_terms") != std::string::npos) { if (e && same_vars && !(a->get_poly().dict_ == b->get_poly().dict_)) why = "eq(a,b) over the same variables with different term dictionaries"; }
        else if (obl.find("is_constant") != std::string::npos) { if (a->is_constant() != constant(*a)) why = "is_constant() disagrees with 'no non-zero exponent'"; }
        else if (obl.find("equal_constants_over_any_variables") != std::string::npos) { if (!e && constant(*a) && constant(*b) && a->get_poly().dict_.size() == b->get_poly().dict_.size() && (a->get_poly().dict_.empty() || a->get_poly().dict_.begin()->second == b->get_poly().dict_.begin()->second)) why = "equal constants over different variable sets are not eq"; }
        else if (obl.find("constant_with_a_nonconstant") != std::string::npos) { if (e && a->get_poly().dict_.size() == 1 && b->get_poly().dict_.size() == 1 && constant(*a) != constant(*b)) why = "eq identifies a constant with a non-constant term"; }
        if (why) { std::cout << "a = " << a->__str__() << " over " << a->get_vars().size() << " variable(s)\nb = " << b->__str__() << " over " << b->get_vars().size() << " variable(s)\nREPRODUCED: " << why << "\n"; return 1; }
    }
    std::cout << "not reproduced on the pool\n";
    return 0;
}
static bool is_composite_obligation(const std::string &obl)
{
    for (const char *k : {".Pow.", ".Interval.", ".TwoArgBasic.", ".OneArgFunction.", ".Add.", ".ordered_compare.", ".Complement.", ".Contains.", ".MIntPoly.cmp.", ".Mul.", ".MultiArgFunction.", ".FiniteSet."}) if (obl.find(k) != std::string::npos) return true;
    return false;
}

// native replay helpers: arguments are  <obligation> key=value ...  (value = CBMC binary string or decimal)
#pragma once
#include <symengine/basic.h>
#include <symengine/integer.h>
#include <symengine/rational.h>
#include <symengine/complex.h>
#include <symengine/real_double.h>
#include <symengine/complex_double.h>
#include <symengine/infinity.h>
#include <symengine/nan.h>
#include <symengine/constants.h>
#include <cstring>
#include <iostream>
#include <map>
#include <string>
#include <cstdint>
typedef std::map<std::string, std::string> Args;
static Args parse_args(int argc, char **argv)
{
    Args a;
    for (int i = 2; i < argc; i++) {
        std::string s = argv[i];
        size_t p = s.find('=');
        if (p != std::string::npos) a[s.substr(0, p)] = s.substr(p + 1);
    }
    return a;
}
static bool has(const Args &a, const std::string &k) { return a.find(k) != a.end(); }
static uint64_t bits_of(const Args &a, const std::string &k)
{
    auto it = a.find(k);
    if (it == a.end()) { std::cerr << "missing input " << k << "\n"; exit(3); }
    const std::string &v = it->second;
    bool bin = v.size() >= 8;
    for (char c : v) if (c != '0' && c != '1') bin = false;
    if (bin) { uint64_t r = 0; for (char c : v) r = (r << 1) | (uint64_t)(c == '1'); return r; }
    return (uint64_t)strtoll(v.c_str(), nullptr, 10);
}
static long long int_of(const Args &a, const std::string &k)
{
    auto it = a.find(k);
    if (it == a.end()) { std::cerr << "missing input " << k << "\n"; exit(3); }
    const std::string &v = it->second;
    bool bin = v.size() >= 8;
    for (char c : v) if (c != '0' && c != '1') bin = false;
    if (bin) {
        uint64_t r = 0; for (char c : v) r = (r << 1) | (uint64_t)(c == '1');
        if (v.size() < 64 && v[0] == '1') r |= ~uint64_t(0) << v.size();   // sign-extend
        return (long long)r;
    }
    return strtoll(v.c_str(), nullptr, 10);
}
static double double_of(const Args &a, const std::string &k)
{
    uint64_t b = bits_of(a, k); double d; memcpy(&d, &b, 8); return d;
}

// native replay for C24: runs the real dense_matrix routines on the counterexample matrix (same small integers, over Q)
// and checks them with exact rational linear algebra written here independently (Laplace expansion, explicit products,
// a reference RREF).  If the counterexample matrix itself does not fail over Q, all matrices with entries in {0,1,2}
// of the same shape are searched (bounded number).  Arguments: <obligation> NN= MM= a[k]=.. bb[k]=.. which=..
#include "common.h"
#include <symengine/matrix.h>
#include <symengine/add.h>
#include <symengine/mul.h>
#include <functional>
using namespace SymEngine;
typedef std::vector<std::vector<RCP<const Basic>>> Mat;
static Mat to_mat(const DenseMatrix &A) { Mat M(A.nrows(), std::vector<RCP<const Basic>>(A.ncols())); for (unsigned i = 0; i < A.nrows(); i++) for (unsigned j = 0; j < A.ncols(); j++) M[i][j] = A.get(i, j); return M; }
static DenseMatrix to_dense(const std::vector<long> &v, unsigned r, unsigned c) { vec_basic x; for (unsigned k = 0; k < r * c; k++) x.push_back(integer(v[k])); return DenseMatrix(r, c, x); }
static bool is0(const RCP<const Basic> &x) { return eq(*x, *zero); }
static Mat mmul(const Mat &A, const Mat &B) { Mat C(A.size(), std::vector<RCP<const Basic>>(B[0].size(), zero)); for (size_t i = 0; i < A.size(); i++) for (size_t j = 0; j < B[0].size(); j++) for (size_t k = 0; k < B.size(); k++) C[i][j] = add(C[i][j], mul(A[i][k], B[k][j])); return C; }
static bool meq(const Mat &A, const Mat &B) { if (A.size() != B.size()) return false; for (size_t i = 0; i < A.size(); i++) { if (A[i].size() != B[i].size()) return false; for (size_t j = 0; j < A[i].size(); j++) if (!eq(*A[i][j], *B[i][j])) return false; } return true; }
static RCP<const Basic> laplace(const Mat &A)
{
    size_t n = A.size(); if (n == 1) return A[0][0];
    RCP<const Basic> d = zero;
    for (size_t c = 0; c < n; c++) { Mat S; for (size_t i = 1; i < n; i++) { std::vector<RCP<const Basic>> row; for (size_t j = 0; j < n; j++) if (j != c) row.push_back(A[i][j]); S.push_back(row); }
        RCP<const Basic> t = mul(A[0][c], laplace(S)); d = (c % 2 == 0) ? add(d, t) : sub(d, t); }
    return d;
}
static Mat ref_rref(Mat M)
{
    size_t r = 0;
    for (size_t c = 0; c < M[0].size() && r < M.size(); c++) {
        size_t p = r; while (p < M.size() && is0(M[p][c])) p++;
        if (p == M.size()) continue;
        std::swap(M[p], M[r]);
        RCP<const Basic> inv = div(one, M[r][c]);
        for (auto &x : M[r]) x = mul(x, inv);
        for (size_t i = 0; i < M.size(); i++) if (i != r) { RCP<const Basic> f = M[i][c]; for (size_t j = 0; j < M[0].size(); j++) M[i][j] = sub(M[i][j], mul(f, M[r][j])); }
        r++;
    }
    return M;
}
static bool echelon(const Mat &B, size_t cols)
{
    long prev = -1; bool zero_seen = false;
    for (auto &row : B) { long lead = -1; for (size_t j = 0; j < cols; j++) if (!is0(row[j])) { lead = (long)j; break; }
        if (lead < 0) zero_seen = true; else { if (zero_seen || lead <= prev) return false; prev = lead; } }
    return true;
}
static void show(const Mat &M, const char *name) { std::cout << name << " = ["; for (auto &r : M) { std::cout << "["; for (auto &x : r) std::cout << x->__str__() << " "; std::cout << "] "; } std::cout << "]\n"; }
static unsigned NN, MM;
// returns 1 if the obligation family fails on this matrix
static int check(const std::string &ob, const std::vector<long> &a, const std::vector<long> &bb, bool verbose)
{
    try {
    if (ob.find("pivoted_elimination") != std::string::npos) {
        DenseMatrix A = to_dense(a, NN, MM);
        for (int which = 0; which < 4; which++) {
            DenseMatrix B(NN, MM); permutelist pl;
            if (which == 0) pivoted_gaussian_elimination(A, B, pl); else if (which == 1) pivoted_fraction_free_gaussian_elimination(A, B, pl);
            else if (which == 2) pivoted_gauss_jordan_elimination(A, B, pl); else pivoted_fraction_free_gauss_jordan_elimination(A, B, pl);
            Mat MA = to_mat(A), MB = to_mat(B);
            bool bad = !meq(ref_rref(MA), ref_rref(MB)) || !echelon(MB, which <= 1 ? MM - 1 : MM);
            if (bad) { if (verbose) { const char *nm[] = {"pivoted_gaussian_elimination", "pivoted_fraction_free_gaussian_elimination", "pivoted_gauss_jordan_elimination", "pivoted_fraction_free_gauss_jordan_elimination"};
                show(MA, "A"); show(MB, nm[which]); std::cout << "REPRODUCED: the result is " << (meq(ref_rref(MA), ref_rref(MB)) ? "not in row echelon form" : "not row-equivalent to A (different reduced row echelon form)") << "\n"; } return 1; }
        }
        return 0;
    }
    if (ob.find("reduced_row_echelon_form") != std::string::npos) {
        DenseMatrix A = to_dense(a, NN, MM);
        for (int nl = 0; nl < 2; nl++) { DenseMatrix B(NN, MM); vec_uint piv; reduced_row_echelon_form(A, B, piv, nl != 0);
            if (!meq(to_mat(B), ref_rref(to_mat(A)))) { if (verbose) { show(to_mat(A), "A"); show(to_mat(B), "rref"); show(ref_rref(to_mat(A)), "exact rref"); std::cout << "REPRODUCED: reduced_row_echelon_form(normalize_last=" << nl << ") differs from the exact RREF\n"; } return 1; } }
        return 0;
    }
    if (ob.find("row_insert") != std::string::npos || ob.find("col_insert") != std::string::npos) {
        // every block of 1..2 rows / columns inserted at every position of a small matrix, against an entry-by-entry reference
        for (unsigned r = 1; r <= 3; r++) for (unsigned c = 1; c <= 3; c++) for (unsigned blk = 1; blk <= 2; blk++) {
            std::vector<long> av, bv; for (unsigned k = 0; k < r * c; k++) av.push_back(10 + k); for (unsigned k = 0; k < 6; k++) bv.push_back(50 + k);
            for (unsigned pos = 0; pos <= r; pos++) { DenseMatrix X = to_dense(av, r, c), B = to_dense(bv, blk, c); X.row_insert(B, pos);
                for (unsigned i = 0; i < r + blk; i++) for (unsigned j = 0; j < c; j++) { RCP<const Basic> want = (i >= pos && i < pos + blk) ? B.get(i - pos, j) : RCP<const Basic>(integer(av[(i < pos ? i : i - blk) * c + j]));
                    RCP<const Basic> got = X.get(i, j);
                    if (got.is_null() || !eq(*got, *want)) { if (verbose) std::cout << "row_insert of a " << blk << "-row block at " << pos << " into a " << r << "x" << c << " matrix: entry (" << i << "," << j << ") wrong\nREPRODUCED\n"; return 1; } } }
            for (unsigned pos = 0; pos <= c; pos++) { DenseMatrix X = to_dense(av, r, c), B = to_dense(bv, r, blk); X.col_insert(B, pos);
                for (unsigned i = 0; i < r; i++) for (unsigned j = 0; j < c + blk; j++) { RCP<const Basic> want = (j >= pos && j < pos + blk) ? B.get(i, j - pos) : RCP<const Basic>(integer(av[i * c + (j < pos ? j : j - blk)]));
                    RCP<const Basic> got = X.get(i, j);
                    if (got.is_null() || !eq(*got, *want)) { if (verbose) std::cout << "col_insert of a " << blk << "-column block at " << pos << " into a " << r << "x" << c << " matrix: entry (" << i << "," << j << ") wrong\nREPRODUCED\n"; return 1; } } }
        }
        return 0;
    }
    if (NN != MM) return 0;
    DenseMatrix A = to_dense(a, NN, NN); Mat MA = to_mat(A); RCP<const Basic> d = laplace(MA);
    if (ob.find("det_bareis") != std::string::npos) { if (!eq(*det_bareis(A), *d)) { if (verbose) { show(MA, "A"); std::cout << "REPRODUCED: det_bareis = " << det_bareis(A)->__str__() << ", cofactor expansion = " << d->__str__() << "\n"; } return 1; } return 0; }
    if (ob.find("det_berkowitz") != std::string::npos) { if (!eq(*det_berkowitz(A), *d)) { if (verbose) { show(MA, "A"); std::cout << "REPRODUCED: det_berkowitz = " << det_berkowitz(A)->__str__() << ", cofactor expansion = " << d->__str__() << "\n"; } return 1; } return 0; }
    if (ob.find("char_poly") != std::string::npos) {
        DenseMatrix P(NN + 1, 1); char_poly(A, P);
        RCP<const Basic> tr = zero; for (unsigned i = 0; i < NN; i++) tr = add(tr, MA[i][i]);
        RCP<const Basic> cn = (NN % 2 == 0) ? d : mul(minus_one, d);
        if (!eq(*P.get(0, 0), *one) || !eq(*P.get(1, 0), *mul(minus_one, tr)) || !eq(*P.get(NN, 0), *cn)) { if (verbose) { show(MA, "A"); show(to_mat(P), "char_poly"); std::cout << "REPRODUCED: characteristic polynomial is not x^n - tr x^(n-1) + ... + (-1)^n det\n"; } return 1; }
        return 0;
    }
    bool sym = true; for (unsigned i = 0; i < NN; i++) for (unsigned j = 0; j < NN; j++) if (!eq(*MA[i][j], *MA[j][i])) sym = false;
    Mat I(NN, std::vector<RCP<const Basic>>(NN, zero)); for (unsigned i = 0; i < NN; i++) I[i][i] = one;
    auto leading_minors_ok = [&]() { for (unsigned k = 1; k <= NN; k++) { Mat S; for (unsigned i = 0; i < k; i++) S.push_back(std::vector<RCP<const Basic>>(MA[i].begin(), MA[i].begin() + k)); if (is0(laplace(S))) return false; } return true; };
    bool nonsing = !is0(d), lead = leading_minors_ok();
    struct { const char *key; bool need_lead; std::function<void(DenseMatrix &)> f; } inv[] = {
        {"inverse_LU", true, [&](DenseMatrix &B) { inverse_LU(A, B); }}, {"inverse_fraction_free_LU", true, [&](DenseMatrix &B) { inverse_fraction_free_LU(A, B); }},
        {"inverse_pivoted_LU", false, [&](DenseMatrix &B) { inverse_pivoted_LU(A, B); }}, {"inverse_gauss_jordan", false, [&](DenseMatrix &B) { inverse_gauss_jordan(A, B); }}};
    for (auto &t : inv) if (ob.find(t.key) != std::string::npos) { if (!nonsing || (t.need_lead && !lead)) return 0; DenseMatrix B(NN, NN); t.f(B);
        if (!meq(mmul(MA, to_mat(B)), I)) { if (verbose) { show(MA, "A"); show(to_mat(B), t.key); std::cout << "REPRODUCED: A * inverse is not the identity\n"; } return 1; } return 0; }
    DenseMatrix b = to_dense(bb, NN, 1); Mat Mb = to_mat(b);
    struct { const char *key; bool need_lead, need_sym; std::function<void(DenseMatrix &)> f; } sol[] = {
        {"fraction_free_LU_solve", true, false, [&](DenseMatrix &x) { fraction_free_LU_solve(A, b, x); }}, {"pivoted_LU_solve", false, false, [&](DenseMatrix &x) { pivoted_LU_solve(A, b, x); }},
        {"LDL_solve", true, true, [&](DenseMatrix &x) { LDL_solve(A, b, x); }}, {"LU_solve", true, false, [&](DenseMatrix &x) { LU_solve(A, b, x); }},
        {"fraction_free_gaussian_elimination_solve", true, false, [&](DenseMatrix &x) { fraction_free_gaussian_elimination_solve(A, b, x); }},
        {"fraction_free_gauss_jordan_solve_without_pivoting", true, false, [&](DenseMatrix &x) { fraction_free_gauss_jordan_solve(A, b, x, false); }},
        {"fraction_free_gauss_jordan_solve", false, false, [&](DenseMatrix &x) { fraction_free_gauss_jordan_solve(A, b, x, true); }}};
    for (auto &t : sol) if (ob.find(std::string("C24.") + t.key + ".") != std::string::npos) { if (!nonsing || (t.need_lead && !lead) || (t.need_sym && !sym)) return 0; DenseMatrix x(NN, 1); t.f(x);
        if (!meq(mmul(MA, to_mat(x)), Mb)) { if (verbose) { show(MA, "A"); show(Mb, "b"); show(to_mat(x), t.key); std::cout << "REPRODUCED: A * x != b\n"; } return 1; } return 0; }
    if (ob.find("C24.LU.") != std::string::npos) { if (!lead) return 0; DenseMatrix L(NN, NN), U(NN, NN); LU(A, L, U); if (!meq(mmul(to_mat(L), to_mat(U)), MA)) { if (verbose) { show(MA, "A"); show(to_mat(L), "L"); show(to_mat(U), "U"); std::cout << "REPRODUCED: L * U != A\n"; } return 1; } return 0; }
    if (ob.find("C24.pivoted_LU.") != std::string::npos) { if (!nonsing) return 0; DenseMatrix L(NN, NN), U(NN, NN); permutelist pl; pivoted_LU(A, L, U, pl); DenseMatrix PA = A; permuteFwd(PA, pl);
        if (!meq(mmul(to_mat(L), to_mat(U)), to_mat(PA))) { if (verbose) { show(MA, "A"); std::cout << "REPRODUCED: L * U != P * A\n"; } return 1; } return 0; }
    if (ob.find("C24.LDL.") != std::string::npos) { if (!sym || !lead) return 0; DenseMatrix L(NN, NN), D(NN, NN); LDL(A, L, D); Mat ML = to_mat(L), LT = ML; for (unsigned i = 0; i < NN; i++) for (unsigned j = 0; j < NN; j++) LT[i][j] = ML[j][i];
        if (!meq(mmul(mmul(ML, to_mat(D)), LT), MA)) { if (verbose) { show(MA, "A"); show(ML, "L"); show(to_mat(D), "D"); std::cout << "REPRODUCED: L * D * L^T != A\n"; } return 1; } return 0; }
    if (ob.find("mul_dense_dense") != std::string::npos) { DenseMatrix B = to_dense(bb.size() >= NN * NN ? bb : a, NN, NN), C(NN, NN); mul_dense_dense(A, B, C); if (!meq(to_mat(C), mmul(MA, to_mat(B)))) { if (verbose) std::cout << "REPRODUCED: mul_dense_dense differs from the textbook product\n"; return 1; } return 0; }
    } catch (SymEngineException &e) { if (verbose) std::cout << "exception: " << e.what() << "\n"; return 0; }
    return 2;
}
int main(int argc, char **argv)
{
    if (argc < 2) return 3;
    Args a = parse_args(argc, argv); std::string ob = argv[1];
    NN = (unsigned)int_of(a, "NN"); MM = has(a, "MM") ? (unsigned)int_of(a, "MM") : NN;
    std::vector<long> av(16, 0), bv(16, 1);
    for (unsigned k = 0; k < 16; k++) { std::string ka = "a[" + std::to_string(k) + "]", kb = "bb[" + std::to_string(k) + "]"; if (has(a, ka)) av[k] = int_of(a, ka); if (has(a, kb)) bv[k] = int_of(a, kb); }
    int rc = check(ob, av, bv, true);
    if (rc == 1) return 1;
    if (rc == 2) { std::cout << "no concretisation for " << ob << "\n"; return 2; }
    // search: all matrices of this shape with entries in {0,1,2} (at most 200000), right-hand side (1,2,0,..)
    unsigned cells = NN * MM; unsigned long total = 1; for (unsigned k = 0; k < cells; k++) total *= 3;
    std::vector<long> rhs = {1, 2, 0, 1, 2, 0, 1, 2, 0, 1, 2, 0, 1, 2, 0, 1};
    for (unsigned long code = 0; code < total && code < 200000ul; code++) { unsigned long c = code; for (unsigned k = 0; k < cells; k++) { av[k] = c % 3; c /= 3; }
        if (check(ob, av, rhs, false) == 1) { check(ob, av, rhs, true); std::cout << "(found by searching the matrices with entries in {0,1,2})\n"; return 1; } }
    std::cout << "not reproduced over Q\n";
    return 0;
}

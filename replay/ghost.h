// concretise a ghost number {type_code, cls, v} (prelude/ghostnum.h) as a real symengine object
#pragma once
#include "common.h"
#include <cmath>
#include <vector>
#include <symengine/symbol.h>
#include <symengine/logic.h>
using namespace SymEngine;
enum GCls { G_FIN = 0, G_PINF = 1, G_NINF = 2, G_ZOO = 3, G_NANV = 4, G_CPLX = 5, G_NONNUM = 6 };
static RCP<const Basic> ghost_obj(const Args &a, const std::string &p)
{
    long t = int_of(a, p + "_type"), cls = int_of(a, p + "_cls"), v = int_of(a, p + "_v");
    switch (t) {
        case SYMENGINE_INTEGER: return integer(v / 2);
        case SYMENGINE_RATIONAL: return Rational::from_two_ints(v, 2);
        case SYMENGINE_REAL_DOUBLE: return real_double(v / 2.0);
        case SYMENGINE_INFTY: return cls == G_PINF ? Inf : (cls == G_NINF ? NegInf : ComplexInf);
        case SYMENGINE_NOT_A_NUMBER: return Nan;
        case SYMENGINE_COMPLEX: return Complex::from_two_nums(*integer(v), *integer(1));
        case SYMENGINE_COMPLEX_DOUBLE: return complex_double(std::complex<double>(v, 1.0));
        case SYMENGINE_BOOLEAN_ATOM: return boolean(has(a, p + "_bval") && int_of(a, p + "_bval") != 0);
        default: return symbol("s" + std::to_string(v));
    }
}
// exact value as a double (ghost values are small multiples of 1/2): +-HUGE_VAL for the signed infinities
static bool ghost_real(const Args &a, const std::string &p, double &out)
{
    long cls = int_of(a, p + "_cls"), v = int_of(a, p + "_v");
    if (cls == G_FIN) { out = v / 2.0; return true; }
    if (cls == G_PINF) { out = HUGE_VAL; return true; }
    if (cls == G_NINF) { out = -HUGE_VAL; return true; }
    return false;
}

// sign / identity predicates of the real number kinds (unit sign_predicates, shared by C06, C29, C34)
static int predicates(const Args &a)
{
    std::vector<double> ds = {0.0, -0.0, 1.5, -2.5, HUGE_VAL, -HUGE_VAL, std::nan("")};
    if (has(a, "D.i")) ds.insert(ds.begin(), double_of(a, "D.i"));
    for (double d : ds) { RCP<const Number> x = real_double(d);
        if (x->is_zero() != (d == 0.0) || x->is_positive() != (d > 0.0) || x->is_negative() != (d < 0.0)) {
            std::cout << "real_double(" << d << (std::signbit(d) ? " [sign bit set]" : "") << "): is_zero=" << x->is_zero() << " is_positive=" << x->is_positive() << " is_negative=" << x->is_negative() << "\nREPRODUCED: the sign predicates disagree with the value\n"; return 1; } }
    for (long n = -2; n <= 2; n++) for (long dd = 1; dd <= 2; dd++) { RCP<const Number> x = Rational::from_two_ints(n, dd);
        if (x->is_zero() != (n == 0) || x->is_positive() != (n > 0) || x->is_negative() != (n < 0)) { std::cout << x->__str__() << "\nREPRODUCED: the sign predicates disagree with the value\n"; return 1; } }
    std::cout << "not reproduced\n"; return 0;
}

// native replay for C29: evaluates the real Le/Lt/Ge/Gt/Eq/Ne on the counterexample operands
#include "ghost.h"
#include <cmath>
static int truth(const RCP<const Basic> &r) { if (!is_a<BooleanAtom>(*r)) return -1; return down_cast<const BooleanAtom &>(*r).get_val() ? 1 : 0; }
int main(int argc, char **argv)
{
    if (argc < 2) return 3;
    Args a = parse_args(argc, argv);
    if (std::string(argv[1]).find(".predicates.") != std::string::npos) return predicates(a);
    RCP<const Basic> x = ghost_obj(a, "a"), y = ghost_obj(a, "b");
    double vx, vy;
    bool rx = ghost_real(a, "a", vx), ry = ghost_real(a, "b", vy);
    std::cout << "a=" << x->__str__() << " b=" << y->__str__() << "\n";
    int bad = 0;
    try {
        if (rx && ry) {
            int le = truth(Le(x, y)), lt = truth(Lt(x, y)), ge = truth(Ge(x, y)), gt = truth(Gt(x, y)), ltba = truth(Lt(y, x)), leba = truth(Le(y, x));
            std::cout << "Le=" << le << " Lt=" << lt << " Ge=" << ge << " Gt=" << gt << " Lt(b,a)=" << ltba << " Le(b,a)=" << leba << "\n";
            if (le != (vx <= vy)) { std::cout << "REPRODUCED: Le(a,b) is not (a <= b)\n"; bad = 1; }
            if (lt != (vx < vy)) { std::cout << "REPRODUCED: Lt(a,b) is not (a < b)\n"; bad = 1; }
            if (ge != (vx >= vy)) { std::cout << "REPRODUCED: Ge(a,b) is not (a >= b)\n"; bad = 1; }
            if (gt != (vx > vy)) { std::cout << "REPRODUCED: Gt(a,b) is not (a > b)\n"; bad = 1; }
            if (le != 1 - ltba) { std::cout << "REPRODUCED: Le(a,b) is not the negation of Lt(b,a)\n"; bad = 1; }
            if (ge != leba) { std::cout << "REPRODUCED: Ge(a,b) differs from Le(b,a)\n"; bad = 1; }
        }
        RCP<const Basic> e1 = Eq(x, y), e2 = Eq(y, x), n1 = Ne(x, y), n2 = Ne(y, x);
        std::cout << "Eq=" << e1->__str__() << " Eq'=" << e2->__str__() << " Ne=" << n1->__str__() << " Ne'=" << n2->__str__() << "\n";
        if (!eq(*e1, *e2)) { std::cout << "REPRODUCED: Eq not symmetric\n"; bad = 1; }
        if (!eq(*n1, *n2)) { std::cout << "REPRODUCED: Ne not symmetric\n"; bad = 1; }
        if (truth(e1) >= 0 && truth(n1) != 1 - truth(e1)) { std::cout << "REPRODUCED: Ne is not the negation of Eq\n"; bad = 1; }
    } catch (SymEngineException &e) {
        std::cout << "exception: " << e.what() << "\n";
        if (rx && ry) { std::cout << "REPRODUCED: exception on real operands\n"; bad = 1; }
    }
    return bad;
}

// native replay for C38: the real generate_fdiff_weights_vector on the counterexample grid (the same small integers,
// now over Q), checked against the property statement on the monomial basis; if that single grid does not fail over Q
// every grid of LEN distinct points from {0..6} and every centre 0..6 is tried (the defect is an identity of rational
// functions, so it shows on most grids).   Arguments: <obligation> LEN=.. MD=.. g0=.. g1=.. ... c=..
#include "common.h"
#include <symengine/finitediff.h>
#include <symengine/add.h>
#include <symengine/mul.h>
#include <symengine/pow.h>
#include <algorithm>
using namespace SymEngine;
static long fact(long k) { long r = 1; for (long i = 2; i <= k; i++) r *= i; return r; }
static bool check(const std::vector<long> &g, long c, unsigned md, bool verbose)
{
    vec_basic grid; for (long x : g) grid.push_back(integer(x));
    unsigned len = (unsigned)g.size();
    vec_basic w;
    try { w = generate_fdiff_weights_vector(grid, md, integer(c)); } catch (SymEngineException &e) { if (verbose) std::cout << "exception " << e.what() << "\n"; return false; }
    if (w.size() != len * (md + 1)) { if (verbose) std::cout << "size " << w.size() << "\n"; return false; }
    for (unsigned k = 0; k <= md; k++)
        for (unsigned m = 0; m < len; m++) {
            RCP<const Basic> s = zero;
            for (unsigned i = 0; i < len; i++) s = add(s, mul(w[i + k * len], pow(integer(g[i] - c), integer(m))));
            RCP<const Basic> want = (m == k) ? RCP<const Basic>(integer(fact(k))) : RCP<const Basic>(zero);
            // 0**0 = 1 in symengine
            if (!eq(*s, *want)) { if (verbose) std::cout << "order " << k << " weights applied to (x-c)^" << m << " give " << s->__str__() << ", exact derivative is " << want->__str__() << "\n"; return false; }
        }
    return true;
}
int main(int argc, char **argv)
{
    if (argc < 2) return 3;
    Args a = parse_args(argc, argv);
    unsigned len = (unsigned)int_of(a, "LEN"), md = (unsigned)int_of(a, "MD");
    std::vector<long> g; bool have = true;
    for (unsigned i = 0; i < len; i++) { std::string k = "g" + std::to_string(i); if (has(a, k)) g.push_back(int_of(a, k)); else have = false; }
    long c = has(a, "c") ? int_of(a, "c") : 0;
    if (have) {
        std::cout << "grid:"; for (long x : g) std::cout << " " << x; std::cout << " centre " << c << " max_deriv " << md << "\n";
        if (!check(g, c, md, true)) { std::cout << "REPRODUCED on the counterexample grid\n"; return 1; }
    }
    std::vector<long> pool = {0, 1, 2, 3, 4, 5, 6};
    std::vector<int> sel(pool.size(), 0); std::fill(sel.begin(), sel.begin() + len, 1);
    std::sort(sel.begin(), sel.end());
    do {
        std::vector<long> gg; for (size_t i = 0; i < pool.size(); i++) if (sel[i]) gg.push_back(pool[i]);
        do {
            for (long cc = 0; cc <= 6; cc++)
                if (!check(gg, cc, md, false)) {
                    std::cout << "grid:"; for (long x : gg) std::cout << " " << x; std::cout << " centre " << cc << " max_deriv " << md << "\n";
                    check(gg, cc, md, true); std::cout << "REPRODUCED on a grid of the search pool\n"; return 1;
                }
        } while (std::next_permutation(gg.begin(), gg.end()));
    } while (std::next_permutation(sel.begin(), sel.end()));
    std::cout << "not reproduced over Q\n";
    return 0;
}

// native replay for C17 (numeric literals): parse(s) on the counterexample literal against direct construction
#include "common.h"
#include <symengine/parser.h>
#include <symengine/real_double.h>
using namespace SymEngine;
int main(int argc, char **argv)
{
    if (argc < 2) return 3;
    Args a = parse_args(argc, argv);
    if (!has(a, "s")) return 2;
    std::string s = a["s"];
    bool plain = true; for (char c : s) if (c < '0' || c > '9') plain = false;
    RCP<const Basic> r;
    try { r = parse(s); } catch (SymEngineException &e) { std::cout << "parse(\"" << s << "\") threw " << e.what() << "\nREPRODUCED: a numeric literal is rejected\n"; return 1; }
    std::cout << "parse(\"" << s << "\") = " << r->__str__() << "\n";
    if (plain) {
        RCP<const Basic> want = integer(integer_class(s.find_first_not_of('0') == std::string::npos ? "0" : s.substr(s.find_first_not_of('0'))));
        if (!eq(*r, *want)) { std::cout << "REPRODUCED: the decimal literal denotes " << want->__str__() << "\n"; return 1; }
    } else if (!is_a<RealDouble>(*r)) { std::cout << "REPRODUCED: a literal with decimal point/exponent is not read as a float\n"; return 1; }
    return 0;
}

// native replay for C17 (numeric literals): parse(s) on the counterexample literal against direct construction
#include "common.h"
#include <symengine/parser.h>
#include <symengine/real_double.h>
#include <symengine/mul.h>
#include <cctype>
#include <functional>
#include <symengine/functions.h>
#include <symengine/logic.h>
#include <symengine/ntheory_funcs.h>
#include "../contracts/C17/name_spec.h"
using namespace SymEngine;
// the name tables (clause "function names mapped to the corresponding library functions"): every name of the specification,
// parse("name(args)") on the real parser against the direct call of the specified library function
typedef RCP<const Basic> B;
struct N1 { const char *name; std::function<B(const B &)> f; const char *fn; };
struct N2 { const char *name; std::function<B(const B &, const B &)> f; const char *fn; };
struct NV { const char *name; std::function<B(const vec_basic &)> f; const char *fn; };
#define X1(n, f) {n, [](const B &a) -> B { return f(a); }, #f},
#define X2(n, f) {n, [](const B &a, const B &b) -> B { return f(a, b); }, #f},
#define XV(n, f) {n, [](const vec_basic &v) -> B { return f(v); }, #f},
static int replay_names()
{
    std::vector<N1> s1 = {SPEC_SINGLE(X1) SPEC_SINGLE_BOOL(X1)};
    std::vector<N2> s2 = {SPEC_DOUBLE(X2) SPEC_DOUBLE_BOOL(X2)};
    std::vector<NV> sv = {SPEC_MULTI(XV)};
    B x = symbol("x"), y = symbol("y"), z = symbol("z");
    int bad = 0;
    auto cmp = [&](const std::string &src, const B &want, const char *fn) {
        try {
            B got = parse(src);
            if (!eq(*got, *want)) { std::cout << "parse(\"" << src << "\") = " << got->__str__() << " ; " << fn << " of the same arguments = " << want->__str__() << "\nREPRODUCED: the name is not mapped to the library function " << fn << "\n"; bad = 1; }
        } catch (SymEngineException &e) { std::cout << "parse(\"" << src << "\") threw " << e.what() << "\nREPRODUCED: a conventional function name is rejected\n"; bad = 1; }
    };
    for (auto &e : s1) cmp(std::string(e.name) + "(x)", e.f(x), e.fn);
    for (auto &e : s2) cmp(std::string(e.name) + "(x, y)", e.f(x, y), e.fn);
    for (auto &e : sv) cmp(std::string(e.name) + "(x, y, z)", e.f({x, y, z}), e.fn);
    // a name applied to a number of operands it has no library function for denotes an (undefined) function symbol of that name
    auto in2 = [&](const char *n) { for (auto &e : s2) if (std::string(e.name) == n) return true; return false; };
    auto inv = [&](const char *n) { for (auto &e : sv) if (std::string(e.name) == n) return true; return false; };
    for (auto &e : s2) if (!inv(e.name)) cmp(std::string(e.name) + "(x, y, z)", function_symbol(e.name, {x, y, z}), "function_symbol (no three-argument library function of that name)");
    for (auto &e : s1) if (!in2(e.name) && !inv(e.name)) cmp(std::string(e.name) + "(x, y)", function_symbol(e.name, {x, y}), "function_symbol (no two-argument library function of that name)");
    if (!bad) std::cout << "every listed name of the one-, two- and many-argument tables parses to its library function (boolean-argument tables not replayed)\n";
    return bad;
}
int main(int argc, char **argv)
{
    if (argc < 2) return 3;
    Args a = parse_args(argc, argv);
    if (has(a, "connectives")) {
        // And/Or/Nand/Nor over 1, 2 and repeated operands: parse against the direct call on the set of operands
        RCP<const Boolean> p = Lt(symbol("x"), symbol("y")), q = Lt(symbol("u"), symbol("v"));
        struct C { const char *name; std::function<RCP<const Boolean>(const set_boolean &)> f; };
        std::vector<C> cs = {{"And", [](const set_boolean &s) { return logical_and(s); }}, {"Or", [](const set_boolean &s) { return logical_or(s); }},
                             {"Nand", [](const set_boolean &s) { return logical_nand(s); }}, {"Nor", [](const set_boolean &s) { return logical_nor(s); }}};
        int bad = 0;
        for (auto &c : cs) {
            std::vector<std::pair<std::string, set_boolean>> cases = {{"(x < y)", {p}}, {"(x < y, x < y)", {p}}, {"(x < y, u < v)", {p, q}}, {"(x < y, u < v, x < y)", {p, q}}};
            for (auto &k : cases) {
                std::string src = std::string(c.name) + k.first;
                try {
                    B got = parse(src); B want = c.f(k.second);
                    if (!eq(*got, *want)) { std::cout << "parse(\"" << src << "\") = " << got->__str__() << " ; the connective applied to the operand set = " << want->__str__() << "\nREPRODUCED: the connective is not applied to its operands\n"; bad = 1; }
                } catch (SymEngineException &e) { std::cout << "parse(\"" << src << "\") threw " << e.what() << "\nREPRODUCED\n"; bad = 1; }
            }
        }
        if (!bad) std::cout << "And/Or/Nand/Nor over one, two and repeated operands parse to the connective of the operand set\n";
        return bad;
    }
    if (has(a, "names")) return replay_names();
    if (!has(a, "s")) return 2;
    std::string s = a["s"];
    if (std::string(argv[1]).find("implicit_mul") != std::string::npos) {
        // split at the longest prefix that reads as a number (digits [. digits] [e[+-]digits]); compare with the product built from the two parts
        size_t i = 0, n = s.size(); bool dg = false;
        while (i < n && isdigit((unsigned char)s[i])) { i++; dg = true; }
        if (i < n && s[i] == '.') { size_t j = i + 1; bool fd = false; while (j < n && isdigit((unsigned char)s[j])) { j++; fd = true; } if (dg || fd) { i = j; dg = true; } }
        if (dg && i < n && (s[i] == 'e' || s[i] == 'E')) { size_t j = i + 1; if (j < n && (s[j] == '+' || s[j] == '-')) j++; bool ed = false; while (j < n && isdigit((unsigned char)s[j])) { j++; ed = true; } if (ed) i = j; }
        if (!dg || i == 0) { std::cout << "not an implicit multiplication token\n"; return 2; }
        try {
            RCP<const Basic> got = parse(s), want = i == n ? parse(s.substr(0, i)) : mul(parse(s.substr(0, i)), parse(s.substr(i)));
            std::cout << "parse(\"" << s << "\") = " << got->__str__() << " ; (" << s.substr(0, i) << ") * (" << s.substr(i) << ") = " << want->__str__() << "\n";
            if (!eq(*got, *want)) { std::cout << "REPRODUCED: implicit multiplication is not the product of the number and the identifier\n"; return 1; }
        } catch (SymEngineException &e) { std::cout << "exception " << e.what() << "\n"; return 2; }
        return 0;
    }
    bool plain = true; for (char c : s) if (c < '0' || c > '9') plain = false;
    RCP<const Basic> r;
    try { r = parse(s); } catch (SymEngineException &e) { std::cout << "parse(\"" << s << "\") threw " << e.what() << "\nREPRODUCED: a numeric literal is rejected\n"; return 1; }
    std::cout << "parse(\"" << s << "\") = " << r->__str__() << "\n";
    if (plain) {
        RCP<const Basic> want = integer(integer_class(s.find_first_not_of('0') == std::string::npos ? "0" : s.substr(s.find_first_not_of('0'))));
        if (!eq(*r, *want)) { std::cout << "REPRODUCED: the decimal literal denotes " << want->__str__() << "\n"; return 1; }
    } else if (!is_a<RealDouble>(*r)) { std::cout << "REPRODUCED: a literal with decimal point/exponent is not read as a float\n"; return 1; }
    return 0;
}

// VERIF-BUILD: {REPO}/symengine/prime_sieve.cpp -fsanitize=address -D_GLIBCXX_ASSERTIONS -fno-omit-frame-pointer
// native replay for C33: the real prime_sieve.cpp is compiled INTO this driver with AddressSanitizer and libstdc++
// assertions, so an out-of-bounds valarray/vector access in the real code is observable; results are compared with
// trial division.  Arguments: <obligation> N0=.. SEG=.. limit=.. | idx=.. lim=.. n=..
#define private public
#include <symengine/prime_sieve.h>
#undef private
#include "common.h"
#include <sys/wait.h>
#include <unistd.h>
using namespace SymEngine;
static bool is_prime(unsigned n) { if (n < 2) return false; for (unsigned d = 2; d * d <= n; d++) if (n % d == 0) return false; return true; }
static std::vector<unsigned> ref_primes(unsigned limit) { std::vector<unsigned> r; for (unsigned n = 2; n <= limit; n++) if (is_prime(n)) r.push_back(n); return r; }
static unsigned nth_prime(unsigned k) { unsigned n = 1; for (unsigned c = 0;; ) { n++; if (is_prime(n)) { if (c == k) return n; c++; } } }
static int check_generate(unsigned limit)
{
    std::vector<unsigned> v; Sieve::generate_primes(v, limit);
    std::vector<unsigned> r = ref_primes(limit);
    if (v != r) {
        std::cout << "REPRODUCED: generate_primes(" << limit << ") returned " << v.size() << " numbers, " << r.size() << " primes exist";
        for (size_t k = 0; k < v.size() && k < r.size(); k++) if (v[k] != r[k]) { std::cout << "; first difference at position " << k << ": " << v[k] << " vs " << r[k]; break; }
        std::cout << "\n"; return 1;
    }
    return 0;
}
static int run(const std::string &ob, const Args &a)
{
    if (has(a, "N0") && has(a, "SEG")) {                 // a counterexample of the _extend grid
        unsigned n0 = (unsigned)int_of(a, "N0"), seg = (unsigned)int_of(a, "SEG");
        unsigned lo = has(a, "LMIN") ? (unsigned)int_of(a, "LMIN") : 0, hi = has(a, "LMAX") ? (unsigned)int_of(a, "LMAX") : 120;
        int bad = 0;
        for (unsigned limit = lo; limit <= hi && !bad; limit++) {      // the grid point's whole limit window (cheap natively)
            Sieve::set_clear(false); Sieve::clear(); Sieve::_sieve_size = 32 * 1024 * 8;
            if (n0 > 10) { std::vector<unsigned> t; Sieve::generate_primes(t, nth_prime(n0 - 1)); }
            Sieve::_sieve_size = seg;
            std::cout << "cache length " << n0 << ", segment " << seg << " bits, generate_primes(limit=" << limit << ")\n" << std::flush;
            bad |= check_generate(limit);
        }
        return bad;
    }
    if (has(a, "idx")) {                                 // iterator history: idx primes produced, cache cleared, re-extended to n entries
        unsigned idx = (unsigned)int_of(a, "idx"), lim = has(a, "lim") ? (unsigned)int_of(a, "lim") : 0, n = has(a, "n") ? (unsigned)int_of(a, "n") : 10;
        Sieve::set_clear(false); Sieve::clear();
        Sieve::iterator it(lim);
        for (unsigned k = 0; k < idx; k++) { unsigned p = it.next_prime(); if (p != nth_prime(k)) { std::cout << "REPRODUCED: prime #" << k << " is " << p << "\n"; return 1; } }
        Sieve::clear();
        if (n > 10) { std::vector<unsigned> t; Sieve::generate_primes(t, nth_prime(n - 1)); }
        std::cout << "iterator at index " << idx << ", cache cleared and re-extended to " << n << " entries, next_prime()\n" << std::flush;
        unsigned p = it.next_prime(), want = nth_prime(idx);
        std::cout << " = " << p << "\n";
        if ((lim == 0 || want <= lim) ? p != want : p <= lim) { std::cout << "REPRODUCED: expected " << want << "\n"; return 1; }
        return 0;
    }
    // generic: a few histories against trial division
    unsigned limit = has(a, "limit") ? (unsigned)int_of(a, "limit") : 1000;
    int bad = 0;
    for (int clr = 0; clr < 2 && !bad; clr++) {
        Sieve::set_clear(clr); bad |= check_generate(limit); bad |= check_generate(limit / 2); bad |= check_generate(limit);
        for (unsigned l = 2; l <= 300 && !bad; l++) bad |= check_generate(l);          // every small limit while the cache (clr = 0) already extends past it
        for (unsigned l = 300; l >= 2 && !bad; l--) bad |= check_generate(l);
        Sieve::iterator it(200); unsigned want = 2;
        for (unsigned p = it.next_prime(); p <= 200 && !bad; p = it.next_prime()) { while (!is_prime(want)) want++; if (p != want) { std::cout << "REPRODUCED: iterator yields " << p << " where " << want << " is due\n"; bad = 1; } want++; }
    }
    return bad;
}
int main(int argc, char **argv)
{
    if (argc < 2) return 3;
    Args a = parse_args(argc, argv);
    pid_t pid = fork();
    if (pid == 0) { int rc = run(argv[1], a); std::cout << std::flush; _exit(rc); }
    int st = 0; waitpid(pid, &st, 0);
    if (WIFSIGNALED(st)) { std::cout << "REPRODUCED: the real code died with signal " << WTERMSIG(st) << " (libstdc++ assertion / sanitizer)\n"; return 1; }
    if (WEXITSTATUS(st) != 0 && WEXITSTATUS(st) != 2) { std::cout << "REPRODUCED: the real prime_sieve.cpp failed (exit " << WEXITSTATUS(st) << "; AddressSanitizer reports are above)\n"; return 1; }
    return WEXITSTATUS(st);
}

// native replay for C20 guards: a valid dump is mutated at the byte / string the counterexample names and loaded in a
// forked child; a crash (signal) or a non-library exception is a reproduction.   Arguments: <obligation> byte=.. | s=..
#include "common.h"
#include <symengine/basic.h>
#include <symengine/symbol.h>
#include <symengine/add.h>
#include <symengine/rational.h>
#include <sys/wait.h>
#include <unistd.h>
using namespace SymEngine;
static int try_load(const std::string &bytes)
{
    try { RCP<const Basic> b = Basic::loads(bytes); std::string s = b->__str__(); (void)b->hash(); std::cout << "loaded: " << s << "\n"; return 0; }
    catch (SymEngineException &e) { std::cout << "rejected: " << e.what() << "\n"; return 0; }
    catch (std::exception &e) { std::cout << "note: non-library exception " << e.what() << " (cereal size fields: outside the guards under contract, see DESIGN)\n"; return 0; }
}
int main(int argc, char **argv)
{
    if (argc < 2) return 3;
    Args a = parse_args(argc, argv);
    pid_t pid = fork();
    if (pid == 0) {
        int bad = 0;
        std::vector<RCP<const Basic>> seeds = {integer(5), add(symbol("x"), integer(1))};
        for (auto &e : seeds) {
            std::string d = e->dumps();
            if (has(a, "byte")) { unsigned char b = (unsigned char)int_of(a, "byte"); for (size_t pos = 0; pos < d.size() && pos < 64; pos++) { std::string m = d; m[pos] = (char)b; bad |= try_load(m); } }
            if (has(a, "s")) { std::string s = a["s"]; size_t p = d.find("5"); if (p != std::string::npos) { std::string m = d; m.replace(p, 1, s); if (p > 0) m[p - 8 < m.size() ? p - 8 : 0] = (char)s.size(); bad |= try_load(m); } }
        }
        if (std::string(argv[1]).find("load_basic.Rational") != std::string::npos || std::string(argv[1]).find("gmp_pre") != std::string::npos || std::string(argv[1]).find("Rational.ctor") != std::string::npos) {
            // a dump of 1/2 whose denominator digit is overwritten with 0, and 0/0
            for (int zero_num = 0; zero_num < 2; zero_num++) {
                std::string d = Rational::from_two_ints(1, 2)->dumps();
                size_t p2 = d.rfind('2'), p1 = d.rfind('1');
                if (p2 != std::string::npos) d[p2] = '0';
                if (zero_num && p1 != std::string::npos) d[p1] = '0';
                std::cout << "loads(dump of 1/2 with denominator 0" << (zero_num ? " and numerator 0" : "") << ")\n" << std::flush;
                bad |= try_load(d);
            }
        }
        std::cout << std::flush; _exit(bad);
    }
    int st = 0; waitpid(pid, &st, 0);
    if (WIFSIGNALED(st)) { std::cout << "REPRODUCED: loads crashed with signal " << WTERMSIG(st) << "\n"; return 1; }
    return WEXITSTATUS(st);
}

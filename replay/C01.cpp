// native replay for C01: exit 1 = the real library violates "eq => equal hash" on the counterexample
#include "leafnum.h"
#include "composite.h"
int main(int argc, char **argv)
{
    if (argc < 2) return 3;
    std::string obl = argv[1];
    Args a = parse_args(argc, argv);
    if (obl.find(".MIntPoly.") != std::string::npos) return mpoly_search(obl);
    if (is_composite_obligation(argv[1])) return composite_search(argv[1], false);
    if (obl.find("hash_combine") != std::string::npos) return 0;   // function-ness cannot fail natively on one run
    RCP<const Basic> x = slot(a, "A", "ka");
    bool same = has(a, "pb_is_a") && int_of(a, "pb_is_a") != 0;
    RCP<const Basic> y = same ? x : slot(a, "B", "kb");
    bool e = eq(*x, *y);
    std::cout << "x=" << x->__str__() << " y=" << y->__str__() << " eq=" << e << " hash(x)=" << x->hash() << " hash(y)=" << y->hash() << "\n";
    if (e && x->hash() != y->hash()) { std::cout << "REPRODUCED: eq but different hash\n"; return 1; }
    if (e != eq(*y, *x)) { std::cout << "REPRODUCED: eq not symmetric\n"; return 1; }
    return 0;
}

// native replay for C06: evaluates the real number arithmetic on the counterexample operands and re-checks
// the extended-number rules of the property statement
#include "ghost.h"
#include <cmath>
#include <symengine/add.h>
#include <symengine/mul.h>
#include <symengine/pow.h>
static int cls_of(const RCP<const Basic> &r)
{
    if (is_a<NaN>(*r)) return G_NANV;
    if (is_a<Infty>(*r)) { const Infty &i = down_cast<const Infty &>(*r); return i.is_positive() ? G_PINF : (i.is_negative() ? G_NINF : G_ZOO); }
    if (is_a<Complex>(*r) || is_a<ComplexDouble>(*r)) return G_CPLX;
    if (is_a_Number(*r)) return G_FIN;
    return G_NONNUM;
}
static int flip(int c) { return c == G_PINF ? G_NINF : (c == G_NINF ? G_PINF : c); }
static bool sinf(int c) { return c == G_PINF || c == G_NINF; }
static int bad = 0;
static void expect(bool ok, const std::string &what) { if (!ok) { std::cout << "REPRODUCED: " << what << "\n"; bad = 1; } }
// clause "a finite float op a finite number is never exact": every pair (float, other kind) x operation on representative values
static int float_ops(bool kf)
{
    std::vector<RCP<const Number>> floats = {real_double(2.0), complex_double(std::complex<double>(1.0, 2.0))};
    std::vector<RCP<const Number>> others = {integer(0), integer(3), Rational::from_two_ints(1, 2), Complex::from_two_nums(*integer(1), *integer(2)), real_double(0.5), complex_double(std::complex<double>(0.5, 1.0))};
    const char *names[] = {"add", "sub", "mul", "div"};
    for (auto &f : floats) for (auto &o : others) for (int op = 0; op < 4; op++) for (int rev = 0; rev < 2; rev++) {
        RCP<const Number> l = rev ? o : f, r = rev ? f : o, res;
        bool known = is_a<RealDouble>(*f) && op == 2 && is_a<Integer>(*o) && o->is_zero();       // the KNOWN-FINDING class
        if (known && !kf) continue;
        try { res = op == 0 ? l->add(*r) : (op == 1 ? l->sub(*r) : (op == 2 ? l->mul(*r) : l->div(*r))); } catch (SymEngineException &e) { continue; }
        if (!is_a<RealDouble>(*res) && !is_a<ComplexDouble>(*res)) { std::cout << l->__str__() << " ." << names[op] << "( " << r->__str__() << " ) = " << res->__str__() << "\nREPRODUCED: a finite float combined with a finite number gives an exact number\n"; return 1; }
    }
    std::cout << "not reproduced on the representative pairs\n";
    return 0;
}
int main(int argc, char **argv)
{
    if (argc < 2) return 3;
    Args a = parse_args(argc, argv);
    if (std::string(argv[1]).find("predicates") != std::string::npos) return predicates(a);
    if (std::string(argv[1]).find("float_op_finite") != std::string::npos) return float_ops(has(a, "kf"));
    RCP<const Basic> xb = ghost_obj(a, "a"), yb = ghost_obj(a, "b");
    if (!is_a_Number(*xb) || !is_a_Number(*yb)) return 3;
    RCP<const Number> x = rcp_static_cast<const Number>(xb), y = rcp_static_cast<const Number>(yb);
    int xc = cls_of(x), yc = cls_of(y);
    double yv = 0; ghost_real(a, "b", yv);
    std::cout << "a=" << x->__str__() << " b=" << y->__str__() << "\n";
    const char *names[] = {"add", "sub", "mul", "div", "pow"};
    for (int op = 0; op < 5; op++) {
        try {
            RCP<const Number> r = op == 0 ? x->add(*y) : op == 1 ? x->sub(*y) : op == 2 ? x->mul(*y) : op == 3 ? x->div(*y) : x->pow(*y);
            int rc = cls_of(r);
            std::cout << "a." << names[op] << "(b) = " << r->__str__() << "\n";
            if (xc == G_NANV || yc == G_NANV) expect(rc == G_NANV, std::string("nan does not absorb ") + names[op]);
            if (is_a<Infty>(*x) && yc != G_CPLX && yc != G_NANV) {
                if (op == 0) expect(rc == (yc == G_FIN ? xc : ((xc == yc && xc != G_ZOO) ? xc : G_NANV)), "Infty + other rule");
                if (op == 1) expect(rc == (yc == G_FIN ? xc : ((sinf(xc) && yc == flip(xc)) ? xc : G_NANV)), "Infty - other rule");
                if (op == 2 && yc == G_FIN) expect(rc == (yv > 0 ? xc : (yv < 0 ? flip(xc) : G_NANV)), "Infty * finite rule");
                if (op == 2 && sinf(xc) && sinf(yc)) expect(rc == (xc == yc ? G_PINF : G_NINF), "signed infinities product");
                if (op == 3 && yc != G_FIN) expect(rc == G_NANV, "Infty / Infty is nan");
                if (op == 3 && yc == G_FIN && yv != 0) expect(rc == (yv > 0 ? xc : flip(xc)), "Infty / finite rule");
            }
            if (op == 0 || op == 2) {
                RCP<const Number> r2 = op == 0 ? y->add(*x) : y->mul(*x);
                std::cout << "b." << names[op] << "(a) = " << r2->__str__() << "\n";
                expect(eq(*r, *r2), std::string(names[op]) + " does not commute");
            }
        } catch (SymEngineException &e) {
            std::cout << "a." << names[op] << "(b) throws: " << e.what() << "\n";
            if (xc == G_NANV || yc == G_NANV) expect(false, std::string("exception instead of nan for ") + names[op]);
        }
    }
    return bad;
}

// native replay for C02: exit 1 = the real __cmp__/eq violate the ordering axioms on the counterexample
#include "leafnum.h"
#include "composite.h"
int main(int argc, char **argv)
{
    if (argc < 2) return 3;
    Args a = parse_args(argc, argv);
    if (is_composite_obligation(argv[1])) return composite_search(argv[1], true);
    RCP<const Basic> x = slot(a, "A", "ka");
    bool same = has(a, "pb_is_a") && int_of(a, "pb_is_a") != 0;
    RCP<const Basic> y = same ? x : slot(a, "B", "kb");
    RCP<const Basic> z = slot(a, "C", "kc");
    int ab = x->__cmp__(*y), ba = y->__cmp__(*x), bc = y->__cmp__(*z), ac = x->__cmp__(*z);
    bool e = eq(*x, *y);
    std::cout << "x=" << x->__str__() << " y=" << y->__str__() << " z=" << z->__str__() << (same ? " (x and y are the same object)" : "")
              << " cmp(x,y)=" << ab << " cmp(y,x)=" << ba << " cmp(y,z)=" << bc << " cmp(x,z)=" << ac << " eq(x,y)=" << e << "\n";
    int bad = 0;
    if (!(ab == -1 || ab == 0 || ab == 1)) { std::cout << "REPRODUCED: range\n"; bad = 1; }
    if ((ab == 0) != e) { std::cout << "REPRODUCED: cmp==0 differs from eq\n"; bad = 1; }
    if (ab != -ba) { std::cout << "REPRODUCED: not antisymmetric\n"; bad = 1; }
    if (ab <= 0 && bc <= 0 && !(ac <= 0)) { std::cout << "REPRODUCED: not transitive\n"; bad = 1; }
    if (ab < 0 && bc <= 0 && !(ac < 0)) { std::cout << "REPRODUCED: not transitive (strict)\n"; bad = 1; }
    return bad;
}

// native replay for C05: runs the real Integer/Rational/Complex glue on the counterexample operands and
// checks the normal form / value with GMP directly.  A crash (SIGFPE from GMP on a zero denominator) is
// reported by the forked child and counts as reproduced.
#include "common.h"
#include <symengine/pow.h>
#include <sys/wait.h>
#include <unistd.h>
using namespace SymEngine;
static bool normal_real(const RCP<const Number> &r)
{
    if (is_a<Integer>(*r)) return true;
    if (is_a<Rational>(*r)) {
        const rational_class &q = down_cast<const Rational &>(*r).as_rational_class();
        rational_class c = q; canonicalize(c);
        return get_den(q) > 1 && get_num(c) == get_num(q) && get_den(c) == get_den(q);
    }
    return false;
}
static int run(const std::string &ob, const Args &a)
{
    int bad = 0;
    if (ob.find("powint") != std::string::npos || ob.find("rational_class_ctor") != std::string::npos || ob.find("Rational.ctor") != std::string::npos) {
        long b = has(a, "A.i") ? int_of(a, "A.i") : 0, e = has(a, "E.i") ? int_of(a, "E.i") : -1;
        if (b > 3 || b < -3) b = b > 0 ? 3 : -3;
        if (e > 6 || e < -6) e = e > 0 ? 6 : -6;
        std::cout << "Integer(" << b << ").powint(" << e << ")\n" << std::flush;
        RCP<const Number> r = integer(b)->powint(*integer(e));
        std::cout << " = " << r->__str__() << "\n";
        if (b == 0 && e < 0) { if (!eq(*r, *ComplexInf)) { std::cout << "REPRODUCED: 0**negative is not zoo\n"; bad = 1; } }
        else if (!normal_real(r)) { std::cout << "REPRODUCED: result not normalised\n"; bad = 1; }
        else {
            RCP<const Number> chk = r;
            for (long k = 0; k < (e < 0 ? -e : 0); k++) chk = chk->mul(*integer(b));
            if (e < 0 && !eq(*chk, *one)) { std::cout << "REPRODUCED: value is not 1/b^|e|\n"; bad = 1; }
        }
        return bad;
    }
    if (ob.find("divint") != std::string::npos || ob.find("from_two_ints") != std::string::npos) {
        long n = has(a, "A.i") ? int_of(a, "A.i") : int_of(a, "n"), d = has(a, "B.i") ? int_of(a, "B.i") : int_of(a, "d");
        if (has(a, "reversed") && int_of(a, "reversed") != 0 && has(a, "A.i")) { long t = n; n = d; d = t; }
        RCP<const Number> r = ob.find("divint") != std::string::npos ? integer(n)->divint(*integer(d)) : Rational::from_two_ints(n, d);
        std::cout << n << "/" << d << " = " << r->__str__() << "\n";
        if (d == 0) { if (!eq(*r, n == 0 ? *rcp_static_cast<const Number>(Nan) : *rcp_static_cast<const Number>(ComplexInf))) { std::cout << "REPRODUCED: x/0 is not zoo (nan for 0/0)\n"; bad = 1; } }
        else {
            if (!normal_real(r)) { std::cout << "REPRODUCED: result not normalised\n"; bad = 1; }
            if (!eq(*r->mul(*integer(d)), *integer(n))) { std::cout << "REPRODUCED: value is not n/d\n"; bad = 1; }
        }
        return bad;
    }
    if (ob.find("Complex.ops") != std::string::npos || ob.find("Complex.ctor") != std::string::npos) {
        // small Gaussian rationals against every small exact operand: normal form of the result and round trips through the inverse operation
        std::vector<RCP<const Number>> zs, os;
        for (long a2 = -2; a2 <= 2; a2++) for (long b2 = -2; b2 <= 2; b2++) if (b2 != 0) zs.push_back(Complex::from_two_nums(*Rational::from_two_ints(a2, 2), *Rational::from_two_ints(b2, 2)));
        for (long k = -2; k <= 2; k++) { os.push_back(integer(k)); os.push_back(Rational::from_two_ints(k, 2)); os.push_back(Complex::from_two_nums(*integer(k), *integer(1))); }
        auto nf = [](const RCP<const Number> &r) { return !is_a<Complex>(*r) || !(down_cast<const Complex &>(*r).imaginary_ == 0); };
        for (auto &z : zs) for (auto &o : os) {
            RCP<const Number> s1 = z->add(*o), d1 = z->sub(*o), m1 = z->mul(*o), m2 = o->mul(*z);
            if (!nf(s1) || !nf(d1) || !nf(m1) || !nf(m2)) { std::cout << "z = " << z->__str__() << ", other = " << o->__str__() << ": " << s1->__str__() << " ; " << d1->__str__() << " ; " << m1->__str__() << " ; " << m2->__str__() << "\nREPRODUCED: a Complex with zero imaginary part was returned (not normalised to a real number)\n"; return 1; }
            if (!eq(*s1->sub(*o), *z) || !eq(*d1->add(*o), *z) || !eq(*m1, *m2)) { std::cout << "z = " << z->__str__() << ", other = " << o->__str__() << "\nREPRODUCED: (z + o) - o, (z - o) + o or z*o == o*z fails\n"; return 1; }
            if (!o->is_zero()) { RCP<const Number> q1 = z->div(*o); if (!nf(q1) || !eq(*q1->mul(*o), *z)) { std::cout << "z = " << z->__str__() << ", other = " << o->__str__() << ": z / other = " << q1->__str__() << "\nREPRODUCED: (z / o) * o != z\n"; return 1; } }
        }
        std::cout << "not reproduced on the small Gaussian rationals\n";
        return 0;
    }
    if (ob.find("dispatch") != std::string::npos) {
        // every pair of small Integers / Rationals through the virtual add/sub/mul/div, against GMP rational arithmetic done here
        std::vector<RCP<const Number>> pool;
        for (long n = -3; n <= 3; n++) for (long d = 1; d <= 3; d++) pool.push_back(Rational::from_two_ints(n, d));
        auto q_of = [](const RCP<const Number> &x) { return is_a<Integer>(*x) ? rational_class(down_cast<const Integer &>(*x).as_integer_class()) : down_cast<const Rational &>(*x).as_rational_class(); };
        const char *names[] = {"add", "sub", "mul", "div"};
        for (auto &x : pool) for (auto &y : pool) for (int op = 0; op < 4; op++) {
            if (op == 3 && y->is_zero()) continue;
            RCP<const Number> r = op == 0 ? x->add(*y) : op == 1 ? x->sub(*y) : op == 2 ? x->mul(*y) : x->div(*y);
            rational_class e = op == 0 ? q_of(x) + q_of(y) : op == 1 ? q_of(x) - q_of(y) : op == 2 ? q_of(x) * q_of(y) : q_of(x) / q_of(y);
            canonicalize(e);
            if (!(is_a<Integer>(*r) || is_a<Rational>(*r)) || !(q_of(r) == e) || !normal_real(r)) { std::cout << x->__str__() << " ." << names[op] << "( " << y->__str__() << " ) = " << r->__str__() << "\nREPRODUCED: not the exact normalised result\n"; return 1; }
        }
        std::cout << "not reproduced on the small pairs\n";
        return 0;
    }
    if (ob.find("powcomp") != std::string::npos) {
        long qn = has(a, "Z.imaginary_.num") ? int_of(a, "Z.imaginary_.num") : 5, qd = has(a, "Z.imaginary_.den") ? int_of(a, "Z.imaginary_.den") : 7;
        if (qn == 0) qn = 1; if (qd <= 0) qd = 1; if (qn > 12 || qn < -12) qn = 5; if (qd > 12) qd = 7;
        RCP<const Number> base = Complex::from_two_nums(*integer(0), *Rational::from_two_ints(qn, qd));
        for (long n = -8; n <= 8; n++) {                              // every exponent residue, both signs
            RCP<const Number> r = base->pow(*integer(n)), chk = n < 0 ? r : rcp_static_cast<const Number>(one);
            for (long k = 0; k < (n < 0 ? -n : n); k++) chk = chk->mul(*base);          // n < 0: r * base^|n| must be 1;  n >= 0: base^n by repeated multiplication
            if (n < 0 ? !eq(*chk, *one) : !eq(*chk, *r)) { std::cout << "(" << base->__str__() << ")**" << n << " = " << r->__str__() << "\nREPRODUCED: not the exact power (multiplying back does not give 1)\n"; return 1; }
            if (n % 2 == 0 && !(is_a<Integer>(*r) || is_a<Rational>(*r))) { std::cout << "(" << base->__str__() << ")**" << n << " = " << r->__str__() << "\nREPRODUCED: an even power of an imaginary number is not returned as a real number\n"; return 1; }
        }
        std::cout << "not reproduced for exponents -8..8\n";
        return 0;
    }
    std::cout << "no concretisation for " << ob << "\n";
    return 2;
}
int main(int argc, char **argv)
{
    if (argc < 2) return 3;
    Args a = parse_args(argc, argv);
    pid_t pid = fork();
    if (pid == 0) { int rc = 2; try { rc = run(argv[1], a); } catch (SymEngineException &e) { std::cout << "exception: " << e.what() << "\nREPRODUCED: exception from exact arithmetic\n"; rc = 1; } std::cout << std::flush; _exit(rc); }
    int st = 0; waitpid(pid, &st, 0);
    if (WIFSIGNALED(st)) { std::cout << "REPRODUCED: the library died with signal " << WTERMSIG(st) << " (GMP division by zero)\n"; return 1; }
    return WEXITSTATUS(st);
}

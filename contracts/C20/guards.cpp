/* C20 (a small part of the property): the input guards of serialize-cereal.h on their real text (guards.inc).
   load_typeid: route F, all 256 byte values.  load_rcp_basic prologue (the region between the first_seen read and the
   type switch; the enclosing function contains try/catch and cannot be compiled whole): route F.
   load_helper(integer_class&): route B, every string of length <= SCAP.
   Exceptions: SerializationError's constructor is the throw site: allowed only for inputs the property lets be rejected. */
#include "core.h"
int verif_thrown; bool verif_may_throw;
typedef unsigned char uint8_t;
typedef unsigned long uintptr_t;
#ifndef SCAP
#define SCAP 6
#endif
struct SerializationError {};
namespace std {
struct string {
  mutable char d[SCAP + 1]; unsigned long n;
  unsigned long size() const { return n; }
  char operator[](unsigned long i) const { __CPROVER_assert(i < n, "C20.safety.string_index_below_size"); return d[i <= SCAP ? i : 0]; }
  struct iterator { char *p;
    iterator &operator++() { p = p + 1; return *this; }
    iterator operator++(int) { iterator o; o.p = p; p = p + 1; return o; }
    bool operator<(const iterator &o) const { return p < o.p; }
    char operator*() const { return *p; } };      /* --pointer-check makes the dereference an obligation */
  iterator begin() const { iterator i; i.p = &d[0]; return i; }
  iterator end() const { iterator i; i.p = &d[0] + n; return i; }
};
inline bool isdigit(char c) { return c >= '0' && c <= '9'; }
}
template <class T> T &std_move(T &t) { return t; }
/* GMP contract (mpz_init_set_str as used by this build's integer_class): any NUL-terminated string is memory-safe */
struct integer_class { bool built; integer_class() { built = false; } integer_class(const std::string &s) { built = true; __CPROVER_assert(s.d[s.n <= SCAP ? s.n : 0] == 0, "C20.gmp_pre.integer_from_string.NUL_terminated"); } };
struct Archive { uint8_t next_byte; std::string next_str; void operator()(uint8_t &i) { i = next_byte; } void operator()(std::string &s) { s = next_str; } };
#include "guards.inc"
extern "C" void h_typeid(void)
{
  Archive ar; ar.next_byte = nondet_uchar();
  TypeID t = (TypeID)0;
  verif_may_throw = (ar.next_byte >= TypeID_Count);
  load_typeid(ar, t);
  OBL("C20.load_typeid.post.only_in_range_type_codes_are_returned_unchanged", (int)t < (int)TypeID_Count && (int)t == (int)ar.next_byte);
  OBL("C20.load_typeid.post.out_of_range_bytes_never_return_normally", !verif_may_throw);
  REACHABLE("h_typeid");
}
static bool shape_ok(const std::string &s)          /* -?[0-9]* with at least one character, the shape the loader promises to its integer backend */
{
  if (s.n == 0) return false;
  bool ok = (s.d[0] == '-' || (s.d[0] >= '0' && s.d[0] <= '9'));
  for (unsigned long i = 1; i < SCAP; i++) if (i < s.n && !(s.d[i] >= '0' && s.d[i] <= '9')) ok = false;
  return ok;
}
extern "C" void h_load_integer(void)
{
  Archive ar; ar.next_str.n = nondet_ulong(); __CPROVER_assume(ar.next_str.n <= SCAP);
  for (unsigned k = 0; k < SCAP; k++) ar.next_str.d[k] = (char)nondet_schar();
  ar.next_str.d[ar.next_str.n] = 0;                 /* cereal's string loader NUL-terminates */
  bool ok = shape_ok(ar.next_str);
  verif_may_throw = !ok;
  integer_class x;
  load_helper(ar, x);
  OBL("C20.load_helper.post.only_strings_of_the_decimal_shape_reach_the_integer_backend", ok && x.built);
  REACHABLE("h_load_integer");
}

from vf import Unit, Entry, Piece, R

META = {"level": "proof"}
SC = 'symengine/serialize-cereal.h'
THROW = R(r'throw (\w+)\(((?:[^;()"]|"[^"]*"|\([^()]*\))*)\);', r'VERIF_THROW(\1);', n='*', regex=True, why="exception object dropped (DESIGN §8)")

def units(tier):
    scap = 6 if tier == 'quick' else 8
    ps = [Piece(SC, r'template <class Archive>\s*inline void load_typeid\(Archive &ar, TypeID &t\)',
                rules=[R(r'template <class Archive>\s*', '', n=1, regex=True, why="template header stripped: instantiated for the stub Archive"),
                       R('TypeID::TypeID_Count', 'TypeID_Count', n=1, why="scoped name of an unscoped enumerator is rejected by the front end"), THROW]),
          Piece(SC, r'template <typename Archive>\s*void load_helper\(Archive &ar, integer_class &intgr\)',
                rules=[R(r'template <typename Archive>\s*', '', n=1, regex=True, why="template header stripped: instantiated for the stub Archive"),
                       R('for (auto it = ++int_str.begin();', 'for (std::string::iterator it = ++int_str.begin();', n=1, why="auto -> the deduced iterator type"),
                       R('std::move(', 'std_move(', n=1, why="rvalue conversion unsupported: identity on lvalues"), THROW])]
    u = Unit('guards', 'C20', 'contracts/C20/guards.cpp', {'guards.inc': ps},
             [Entry('h_typeid', route='F', timeout=120, bounds="all 256 byte values"),
              Entry('h_load_integer', route='B', timeout=600, defines={'SCAP': scap}, unwind=scap + 2, bounds="every byte string of length <= %d" % scap)],
             route='F',
             trusted=["Archive stub delivers an arbitrary byte / an arbitrary NUL-terminated string (cereal's binary reader is not under contract)",
                      "std::string stub (size, operator[], iterators), std::isdigit on ASCII; integer backend: mpz_init_set_str is memory-safe on any NUL-terminated string"],
             assumptions=["only the two guards the property anchors are covered: cereal's reader, size fields, sharing references (load_rcp_basic: try/catch, cannot be compiled), "
                          "direct make_rcp of non-canonical objects and all post-load operations are NOT under contract — most of C20"])
    return [u, load_exact_unit(tier)]

def load_exact_unit(tier):
    import importlib.util, os
    spec = importlib.util.spec_from_file_location('units_C05_for_C20', os.path.join(os.path.dirname(__file__), '..', 'C05', 'units.py'))
    c05 = importlib.util.module_from_spec(spec); spec.loader.exec_module(c05)
    pieces = c05.pieces()
    def loader(cls, call_rule):
        sig = r'template <class Archive>\s*RCP<const Basic> load_basic\(Archive &ar, RCP<const %s> &\)' % cls
        return Piece(SC, sig, rules=[R(sig, 'RCPNumber load_basic_%s(Archive &ar, int &)' % cls, n=1, regex=True,
                                       why="template header stripped (stub Archive); the tag parameter RCP<const %s>& only selects the overload -> distinct name" % cls)] + call_rule + c05.TOK)
    pieces['loaders.inc'] = [loader('Rational', [R('RCP<const Integer> num, den;', 'Integer *num, *den;', n=1, why="RCP<const Integer> -> raw pointer (dereferenced as Integer)")]),
                             loader('Complex', [R('RCP<const Number> num, den;', 'Number *num, *den;', n=1, why="RCP<const Number> -> raw pointer")])]
    ents = [Entry(h, defines={'EXACT_ABSTRACT': 1, 'C20_LOADERS': 1}, route='F', timeout=300, unwindset=['mp_pow_ui.0:6', 'ipow.0:6'], unwind=4,
                  bounds="any two exact numbers delivered by the archive (full 64-bit integers; GMP results arbitrary canonical values)") for h in ('h_load_rational', 'h_load_complex')]
    return Unit('load_exact_numbers', 'C20', 'contracts/C05/exact.cpp', pieces, ents, route='F',
                trusted=["Archive stub: ar(num, den) delivers two arbitrary exact numbers (cereal's reader and the recursive RCP loading are not under contract)",
                         "GMP contracts of prelude/exactnum.h; the glue the loaders call (Rational::from_two_ints, Complex::from_two_nums, from_mpq) is the real text also verified under C05"],
                assumptions=["only the Rational and Complex loaders; every other load_basic overload (direct make_rcp of possibly non-canonical objects) is not under contract"])

def replay_args(obl, inputs, res):
    import re
    if 'load_basic' in obl or obl.startswith('C05.'):
        return [obl]
    if 'typeid' in obl:
        v = inputs.get('ar.next_byte', {}).get('data')
        return [obl, "byte=%s" % v] if v is not None else None
    chars, n = {}, None
    for k, v in inputs.items():
        m = re.match(r'^ar\.next_str\.d\[(\d+)l?\]$', k)
        if m and 'data' in v:
            chars[int(m.group(1))] = v['data']
        if k == 'ar.next_str.n' and 'data' in v:
            n = int(re.sub(r'[ul]+$', '', v['data']))
    if n is None:
        return None
    s = ""
    for i in range(n):
        d = chars.get(i, "48"); m = re.match(r"^'(.)'$", d)
        c = m.group(1) if m else chr(int(d) & 0x7f)
        s += c if c.isprintable() and c not in " =" else "?"
    return [obl, "s=" + s]

from vf import Unit, Entry, Piece, R

META = {"level": "proof"}
SC = 'symengine/serialize-cereal.h'
THROW = R(r'throw (\w+)\(((?:[^;()"]|"[^"]*"|\([^()]*\))*)\);', r'VERIF_THROW(\1);', n='*', regex=True, why="exception object dropped (DESIGN §8)")

def units(tier):
    scap = 6 if tier == 'quick' else 8
    ps = [Piece(SC, r'template <class Archive>\s*inline void load_typeid\(Archive &ar, TypeID &t\)',
                rules=[R(r'template <class Archive>\s*', '', n=1, regex=True, why="template header stripped: instantiated for the stub Archive"),
                       R('TypeID::TypeID_Count', 'TypeID_Count', n=1, why="scoped name of an unscoped enumerator is rejected by the front end"), THROW]),
          Piece(SC, r'template <typename Archive>\s*void load_helper\(Archive &ar, integer_class &intgr\)',
                rules=[R(r'template <typename Archive>\s*', '', n=1, regex=True, why="template header stripped: instantiated for the stub Archive"),
                       R('for (auto it = ++int_str.begin();', 'for (std::string::iterator it = ++int_str.begin();', n=1, why="auto -> the deduced iterator type"),
                       R('std::move(', 'std_move(', n=1, why="rvalue conversion unsupported: identity on lvalues"), THROW])]
    u = Unit('guards', 'C20', 'contracts/C20/guards.cpp', {'guards.inc': ps},
             [Entry('h_typeid', route='F', timeout=120, bounds="all 256 byte values"),
              Entry('h_load_integer', route='B', timeout=600, defines={'SCAP': scap}, unwind=scap + 2, bounds="every byte string of length <= %d" % scap)],
             route='F',
             trusted=["Archive stub delivers an arbitrary byte / an arbitrary NUL-terminated string (cereal's binary reader is not under contract)",
                      "std::string stub (size, operator[], iterators), std::isdigit on ASCII; integer backend: mpz_init_set_str is memory-safe on any NUL-terminated string"],
             assumptions=["only the two guards the property anchors are covered: cereal's reader, size fields, sharing references (load_rcp_basic: try/catch, cannot be compiled), "
                          "direct make_rcp of non-canonical objects and all post-load operations are NOT under contract — most of C20"])
    return [u]

def replay_args(obl, inputs, res):
    import re
    if 'typeid' in obl:
        v = inputs.get('ar.next_byte', {}).get('data')
        return [obl, "byte=%s" % v] if v is not None else None
    chars, n = {}, None
    for k, v in inputs.items():
        m = re.match(r'^ar\.next_str\.d\[(\d+)l?\]$', k)
        if m and 'data' in v:
            chars[int(m.group(1))] = v['data']
        if k == 'ar.next_str.n' and 'data' in v:
            n = int(re.sub(r'[ul]+$', '', v['data']))
    if n is None:
        return None
    s = ""
    for i in range(n):
        d = chars.get(i, "48"); m = re.match(r"^'(.)'$", d)
        c = m.group(1) if m else chr(int(d) & 0x7f)
        s += c if c.isprintable() and c not in " =" else "?"
    return [obl, "s=" + s]

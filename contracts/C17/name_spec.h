/* C17, clause "function names [are] mapped to the corresponding library functions": the specification side.
   Written from the property statement and conventional mathematical naming (the SymPy vocabulary SymEngine follows), NOT
   copied from parser.cpp: X(name, f) says "the name <name>, applied to the number of arguments of this list, denotes the
   library function SymEngine::f".  A name that is not listed here is accepted in the real tables only under the
   conventional rule (same-named function, or arcX -> aX), see name_tables.c.
   Used twice: by the CBMC harness (name, #f as strings) and by the native replay (name, a call of f). */
#define SPEC_SINGLE(X) \
  X("sin", sin) X("cos", cos) X("tan", tan) X("cot", cot) X("csc", csc) X("sec", sec) \
  X("asin", asin) X("acos", acos) X("atan", atan) X("asec", asec) X("acsc", acsc) X("acot", acot) \
  X("arcsin", asin) X("arccos", acos) X("arctan", atan) X("arcsec", asec) X("arccsc", acsc) X("arccot", acot) \
  X("sinh", sinh) X("cosh", cosh) X("tanh", tanh) X("coth", coth) X("sech", sech) X("csch", csch) \
  X("asinh", asinh) X("acosh", acosh) X("atanh", atanh) X("asech", asech) X("acsch", acsch) X("acoth", acoth) \
  X("arcsinh", asinh) X("arccosh", acosh) X("arctanh", atanh) X("arcsech", asech) X("arccsch", acsch) X("arccoth", acoth) \
  X("gamma", gamma) X("sqrt", sqrt) X("abs", abs) X("sign", sign) X("exp", exp) X("erf", erf) X("erfc", erfc) \
  X("loggamma", loggamma) X("lambertw", lambertw) X("dirichlet_eta", dirichlet_eta) X("floor", floor) X("ceiling", ceiling) \
  X("ln", log) X("log", log) X("zeta", zeta) X("primepi", primepi) X("primorial", primorial)
#define SPEC_DOUBLE(X) \
  X("pow", pow) X("beta", beta) X("log", log) X("zeta", zeta) X("lowergamma", lowergamma) X("uppergamma", uppergamma) \
  X("polygamma", polygamma) X("kronecker_delta", kronecker_delta) X("atan2", atan2)
#define SPEC_MULTI(X) X("max", max) X("min", min) X("levi_civita", levi_civita)
#define SPEC_SINGLE_BOOL(X) X("Eq", Eq) X("Equality", Eq)
#define SPEC_SINGLE_BOOL_BOOL(X) X("Not", logical_not)
#define SPEC_DOUBLE_BOOL(X) \
  X("Eq", Eq) X("Equality", Eq) X("Ne", Ne) X("Unequality", Ne) X("Ge", Ge) X("GreaterThan", Ge) X("Gt", Gt) X("StrictGreaterThan", Gt) \
  X("Le", Le) X("LessThan", Le) X("Lt", Lt) X("StrictLessThan", Lt)
#define SPEC_VEC_BOOL(X) X("Xor", logical_xor) X("Xnor", logical_xnor)
#define SPEC_SET_BOOL(X) X("And", logical_and) X("Or", logical_or) X("Nand", logical_nand) X("Nor", logical_nor)

/* C17 route F (clause "function names mapped to the corresponding library functions"): the eight name tables of
   symengine/parser/parser.cpp (init_parser_single_arg_functions and the statics of Parser::functionify), extracted on every
   run (tables.inc): each initializer  {"name", [(cast)]f}  becomes the pair of strings {"name", "f"} — the overload-selecting
   cast and the std::function wrapping are dropped (both are checked by the C++ compiler: a wrong arity does not compile);
   the std::map is modelled by its contract: an initializer list inserts in order and keeps the FIRST entry of a key, find()
   returns that entry or end().
   Contract of each table against name_spec.h:
     post.every_conventional_name_is_present              every name of the specification is found
     post.name_maps_to_the_corresponding_library_function  and what it is mapped to is the specified function
     post.unlisted_name_maps_to_the_same_named_function    an entry the specification does not list follows the naming rule
   The tables are finite constants: the harness visits every row (complete, no input bound). */
#include <stdbool.h>
#define OBL(name, cond) __CPROVER_assert((cond), name)
#define REACHABLE(name) __CPROVER_assert(0, "VACUITY." name)
typedef struct { const char *name; const char *fn; } NameEntry;
#include "tables.inc"
#include "name_spec.h"
#define XS(n, f) {n, #f},
static const NameEntry spec_functions[] = { SPEC_SINGLE(XS) };
static const NameEntry spec_double_arg_functions[] = { SPEC_DOUBLE(XS) };
static const NameEntry spec_multi_arg_functions[] = { SPEC_MULTI(XS) };
static const NameEntry spec_single_arg_boolean_functions[] = { SPEC_SINGLE_BOOL(XS) };
static const NameEntry spec_single_arg_boolean_boolean_functions[] = { SPEC_SINGLE_BOOL_BOOL(XS) };
static const NameEntry spec_double_arg_boolean_functions[] = { SPEC_DOUBLE_BOOL(XS) };
static const NameEntry spec_multi_arg_vec_boolean_functions[] = { SPEC_VEC_BOOL(XS) };
static const NameEntry spec_multi_arg_set_boolean_functions[] = { SPEC_SET_BOOL(XS) };
#define MAXLEN 24
static bool streq(const char *a, const char *b)
{
  for (unsigned i = 0; i < MAXLEN; i++) { if (a[i] != b[i]) return false; if (a[i] == 0) return true; }
  __CPROVER_assert(0, "capacity: a name longer than MAXLEN");
  return false;
}
/* std::map<const std::string, F>{init list}.find(name): the first entry with that key, or none */
static const char *map_find(const NameEntry *t, unsigned n, const char *name)
{
  for (unsigned i = 0; i < n; i++) if (streq(t[i].name, name)) return t[i].fn;
  return 0;
}
static bool conventional(const char *name, const char *fn)
{
  if (streq(name, fn)) return true;
  return name[0] == 'a' && name[1] == 'r' && name[2] == 'c' && fn[0] == 'a' && streq(name + 3, fn + 1);
}
#define N(t) ((unsigned)(sizeof(t) / sizeof(t[0])))
#define CHECK_TABLE(T) \
  for (unsigned k = 0; k < N(spec_##T); k++) { \
    const char *f = map_find(tbl_##T, N(tbl_##T), spec_##T[k].name); \
    OBL("C17.functionify." #T ".post.every_conventional_name_is_present", f != 0); \
    if (f != 0) OBL("C17.functionify." #T ".post.name_maps_to_the_corresponding_library_function", streq(f, spec_##T[k].fn)); \
  } \
  for (unsigned i = 0; i < N(tbl_##T); i++) { \
    if (map_find(spec_##T, N(spec_##T), tbl_##T[i].name) == 0) \
      OBL("C17.functionify." #T ".post.unlisted_name_maps_to_the_same_named_function", conventional(tbl_##T[i].name, tbl_##T[i].fn)); \
  }
void h_name_tables_single(void) { CHECK_TABLE(functions) REACHABLE("h_name_tables_single"); }
void h_name_tables_other(void)
{
  CHECK_TABLE(double_arg_functions) CHECK_TABLE(multi_arg_functions) CHECK_TABLE(single_arg_boolean_functions)
  CHECK_TABLE(single_arg_boolean_boolean_functions) CHECK_TABLE(double_arg_boolean_functions)
  CHECK_TABLE(multi_arg_vec_boolean_functions) CHECK_TABLE(multi_arg_set_boolean_functions)
  REACHABLE("h_name_tables_other");
}

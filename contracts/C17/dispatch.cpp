/* C17 route F: the argument-count dispatch of Parser::functionify (dispatch.inc: region from `if (params.size() == 1)` to the end of the
   multi_arg_functions branch, extracted on every run).  Contract (function names are mapped to library functions OF THE WRITTEN ARITY):
     one operand:   the one-argument table, else the one-argument boolean table, else the boolean-of-boolean table (operand must be a
                    Boolean, ParseError otherwise) — the row found is called with that operand;
     two operands:  the two-argument table, else the two-argument boolean table — called with both operands in order;
     otherwise / not found: the any-arity table (max, min, levi_civita) — called with the whole operand list; else fall through.
   Stubs: RCP = opaque value id with a ghost Boolean flag; each table lookup returns found / not found (which row: unit name_tables);
   loop-free, every operand count 0..CAP and every found/not-found combination: complete for the abstraction. */
#include "core.h"
#ifndef CAP
#define CAP 4
#endif
int verif_thrown; bool verif_may_throw;
typedef unsigned RCPBasic;
bool g_is_bool[8];
inline bool is_a_Boolean_id(RCPBasic v) { return g_is_bool[v & 7]; }
inline RCPBasic as_boolean(RCPBasic v) { return v; }
struct vec_basic { RCPBasic d[CAP]; unsigned n; unsigned size() const { return n; } RCPBasic operator[](unsigned i) const { __CPROVER_assert(i < n, "vector index in bounds"); return d[i < CAP ? i : 0]; } };
struct TableIt { int table; int row; bool operator!=(const TableIt &o) const { return row != o.row; } bool operator==(const TableIt &o) const { return row == o.row; } };
struct Table { int id; int found_row; TableIt find(int name) const { TableIt t; t.table = id; t.row = found_row; return t; } TableIt end() const { TableIt t; t.table = id; t.row = -1; return t; } };
Table single_arg_functions_tbl, single_arg_boolean_functions, single_arg_boolean_boolean_functions, double_arg_functions, double_arg_boolean_functions, multi_arg_functions;
inline Table init_parser_single_arg_functions() { return single_arg_functions_tbl; }
/* ghost record of the call through a table row */
int g_calls, g_table, g_nargs; RCPBasic g_a0, g_a1, g_result; bool g_whole_list;
inline RCPBasic call_entry(const TableIt &it, RCPBasic a) { g_calls++; g_table = it.table; g_nargs = 1; g_a0 = a; return g_result; }
inline RCPBasic call_entry(const TableIt &it, RCPBasic a, RCPBasic b) { g_calls++; g_table = it.table; g_nargs = 2; g_a0 = a; g_a1 = b; return g_result; }
vec_basic *g_list;
inline RCPBasic call_entry(const TableIt &it, vec_basic &v) { g_calls++; g_table = it.table; g_nargs = -1; g_list = &v; return g_result; }
bool g_fell_through;
RCPBasic dispatch(int name, vec_basic &params)
{
#include "dispatch.inc"
  g_fell_through = true; return 0;
}
static int nd_row() { int r = nondet_int(); __CPROVER_assume(r >= -1 && r < 4); return r; }
extern "C" void h_dispatch(void)
{
  vec_basic p; p.n = nondet_uint(); __CPROVER_assume(p.n <= CAP);
  for (unsigned i = 0; i < CAP; i++) { p.d[i] = nondet_uint(); __CPROVER_assume(p.d[i] < 8); }
  for (unsigned i = 0; i < 8; i++) g_is_bool[i] = nondet_boolean();
  single_arg_functions_tbl.id = 1; single_arg_boolean_functions.id = 2; single_arg_boolean_boolean_functions.id = 3; double_arg_functions.id = 4; double_arg_boolean_functions.id = 5; multi_arg_functions.id = 6;
  single_arg_functions_tbl.found_row = nd_row(); single_arg_boolean_functions.found_row = nd_row(); single_arg_boolean_boolean_functions.found_row = nd_row();
  double_arg_functions.found_row = nd_row(); double_arg_boolean_functions.found_row = nd_row(); multi_arg_functions.found_row = nd_row();
  g_result = nondet_uint(); g_calls = 0; g_table = 0; g_nargs = 0; g_fell_through = false; verif_thrown = 0; g_list = 0;
  /* the specification: which table answers, from the property statement (a name denotes the library function of the written arity) */
  int want = 0;
  if (p.n == 1) { if (single_arg_functions_tbl.found_row != -1) want = 1; else if (single_arg_boolean_functions.found_row != -1) want = 2; else if (single_arg_boolean_boolean_functions.found_row != -1) want = 3; }
  if (p.n == 2) { if (double_arg_functions.found_row != -1) want = 4; else if (double_arg_boolean_functions.found_row != -1) want = 5; }
  if (want == 0 && multi_arg_functions.found_row != -1) want = 6;
  bool must_throw = (want == 3 && !g_is_bool[p.d[0]]);
  verif_may_throw = must_throw;
  RCPBasic r = dispatch(0, p);
  OBL("C17.functionify.dispatch.post.non_boolean_operand_of_Not_is_a_ParseError", !must_throw);       /* normal return excluded when it must throw */
  if (want == 0) OBL("C17.functionify.dispatch.post.unknown_name_falls_through_without_a_call", g_fell_through && g_calls == 0);
  else {
    OBL("C17.functionify.dispatch.post.exactly_one_library_function_is_called_and_its_result_returned", g_calls == 1 && !g_fell_through && r == g_result);
    OBL("C17.functionify.dispatch.post.the_table_of_the_written_arity_answers", g_table == want);
    if (want <= 3) OBL("C17.functionify.dispatch.post.one_argument_call_gets_the_operand", g_nargs == 1 && g_a0 == p.d[0]);
    else if (want <= 5) OBL("C17.functionify.dispatch.post.two_argument_call_gets_both_operands_in_order", g_nargs == 2 && g_a0 == p.d[0] && g_a1 == p.d[1]);
    else OBL("C17.functionify.dispatch.post.any_arity_call_gets_the_whole_operand_list", g_nargs == -1 && g_list == &p);
  }
  REACHABLE("h_dispatch");
}

/* C17 route B (one clause of the property): the real Parser::parse_numeric (pn.inc) on every string of the tokenizer's
   NUMERIC language  (dig* "."? dig+ ([eE][-+]?dig+)?) | (dig+ ".")  up to SCAP characters.
   Postcondition (property statement): a decimal integer literal is read in base 10 regardless of leading zeros; a
   literal with a decimal point or an exponent is read as a float.
   Stubs (assumed contracts): std::string members, strtol per ISO C 7.22.1.4 (base 0: "0" prefix = octal, "0x" = hex),
   errno, fast_float::from_chars (opaque), integer()/real_double() ghost constructors. */
#include "core.h"
#ifndef SCAP
#define SCAP 6
#endif
int verif_thrown; bool verif_may_throw;
typedef unsigned long size_t;
#define ERANGE 34
int errno_;
#define errno errno_
extern "C" void stub_copy_chars(char *d, const char *p, unsigned long n) { for (unsigned i = 0; i < SCAP; i++) if (i < n) d[i] = p[i]; for (unsigned i = 0; i < SCAP + 1; i++) if (i >= n) d[i] = 0; }
extern "C" size_t stub_find(const char *d, size_t n, char c) { for (size_t i = 0; i < SCAP; i++) if (i < n && d[i] == c) return i; return (size_t)-1; }
extern "C" size_t stub_find_set(const char *d, size_t n, const char *set)
{
  for (size_t i = 0; i < SCAP; i++) if (i < n) for (unsigned k = 0; k < 4; k++) { if (set[k] == 0) break; if (d[i] == set[k]) return i; }
  return (size_t)-1;
}
namespace std {
struct string {
  mutable char d[SCAP + 1]; size_t n;
  static const size_t npos = (size_t)-1;
  string() { n = 0; d[0] = 0; }
  string(const string &o) { n = o.n; stub_copy_chars(d, o.d, o.n <= SCAP ? o.n : 0); }
  string &operator=(const string &o) { n = o.n; stub_copy_chars(d, o.d, o.n <= SCAP ? o.n : 0); return *this; }
  string(const char *p, size_t len) { __CPROVER_assert(len <= SCAP, "C17.safety.substring_length_within_the_source_string"); n = len <= SCAP ? len : 0; stub_copy_chars(d, p, n); }
  const char *c_str() const { return &d[0]; }
  size_t length() const { return n; }
  size_t size() const { return n; }
  char operator[](size_t i) const { __CPROVER_assert(i <= n, "string index in bounds"); return d[i <= SCAP ? i : 0]; }
  size_t find_first_of(char c) const { return stub_find(d, n, c); }
  size_t find(char c) const { return stub_find(d, n, c); }
  size_t find_first_of(const char *set) const { return stub_find_set(d, n, set); }      /* first position holding any character of the set */
};
}
static int digit_of(char c) { if (c >= '0' && c <= '9') return c - '0'; if (c >= 'a' && c <= 'z') return c - 'a' + 10; if (c >= 'A' && c <= 'Z') return c - 'A' + 10; return 99; }
extern "C" long stub_strtol(const char *s, char **end, int base)
{
  unsigned i = 0; int neg = 0;
  if (s[i] == '+' || s[i] == '-') { neg = (s[i] == '-'); i++; }
  if (base == 0) { if (s[i] == '0') { if ((s[i + 1] == 'x' || s[i + 1] == 'X') && digit_of(s[i + 2]) < 16) { base = 16; i += 2; } else base = 8; } else base = 10; }
  else if (base == 16 && s[i] == '0' && (s[i + 1] == 'x' || s[i + 1] == 'X') && digit_of(s[i + 2]) < 16) i += 2;
  __CPROVER_assert(base >= 2 && base <= 36, "strtol: base is 0 or in 2..36");
  long v = 0; unsigned start = i;
  for (unsigned k = 0; k < SCAP + 1; k++) if (i < SCAP + 1 && digit_of(s[i]) < base) { v = v * base + digit_of(s[i]); i++; }      /* <= SCAP digits: no overflow, errno untouched */
  if (i == start) { if (end) *end = (char *)s; return 0; }      /* endptr may be null (ISO C) */
  if (end) *end = (char *)(s + i);
  return neg ? -v : v;
}
namespace std { inline long strtol(const char *s, char **end, int base) { return stub_strtol(s, end, base); } }
struct Res { int kind; long ival; };            /* ghost result: 0 = Integer(ival), 1 = RealDouble, 2 = Integer built from the string (overflow path) */
typedef Res RCPBasic;
struct integer_class { int tag; integer_class(const std::string &s) { tag = 1; } };
inline RCPBasic integer(long l) { Res r; r.kind = 0; r.ival = l; return r; }
inline RCPBasic integer(const integer_class &c) { Res r; r.kind = 2; r.ival = 0; return r; }
inline RCPBasic real_double(double d) { Res r; r.kind = 1; r.ival = 0; return r; }
/* fast_float::from_chars(first, last, value): parses the LONGEST prefix of the form  digits* [ "." digits* ] [ (e|E) [+-] digits+ ]  with at least one digit in the
   mantissa (the exponent is taken only when digits follow); ptr points just after it (ptr == first when nothing parses).  The value itself is opaque. */
extern "C" unsigned long stub_float_prefix(const char *s, unsigned long n)
{
  unsigned long i = 0; bool digits = false;
  for (unsigned k = 0; k < SCAP; k++) if (i < n && s[i] >= '0' && s[i] <= '9') { i++; digits = true; }
  if (i < n && s[i] == '.') { unsigned long j = i + 1; bool fd = false; for (unsigned k = 0; k < SCAP; k++) if (j < n && s[j] >= '0' && s[j] <= '9') { j++; fd = true; } if (digits || fd) { i = j; digits = true; } }
  if (!digits) return 0;
  if (i < n && (s[i] == 'e' || s[i] == 'E')) { unsigned long j = i + 1; if (j < n && (s[j] == '+' || s[j] == '-')) j++; bool ed = false; for (unsigned k = 0; k < SCAP; k++) if (j < n && s[j] >= '0' && s[j] <= '9') { j++; ed = true; } if (ed) i = j; }
  return i;
}
namespace fast_float { struct from_chars_result { const char *ptr; }; inline from_chars_result from_chars(const char *a, const char *b, double &d) { from_chars_result r; r.ptr = a + stub_float_prefix(a, (unsigned long)(b - a)); d = nondet_double(); return r; } }
/* std::tuple<RCP, RCP> / std::make_tuple: a pair record */
struct RCPPair { Res first, second; };
inline RCPPair make_pair_of(const Res &a, const Res &b) { RCPPair p; p.first = a; p.second = b; return p; }
Res one;
/* parse_identifier: a symbol / constant named by the string (ghost: kind 3, the string recorded) */
std::string last_identifier;
struct Parser { RCPBasic parse_numeric(const std::string &expr); RCPPair parse_implicit_mul(const std::string &expr);
  RCPBasic parse_identifier(const std::string &expr) { last_identifier = expr; Res r; r.kind = 3; r.ival = (long)expr.n; return r; } };
#include "pn.inc"
static bool is_dig(char c) { return c >= '0' && c <= '9'; }
/* acceptor for the tokenizer's NUMERIC token (tokenizer.re): (dig* "."? dig+ ([eE][-+]?dig+)?) | (dig+ ".") */
extern "C" bool is_numeric_token(const char *s, unsigned n)
{
  /* states: 0 start, 1 int digits, 2 after '.', no frac digit yet (int digits seen?), 3 frac digits, 4 after e, 5 after e sign, 6 exp digits */
  int st = 0; bool intdigits = false, ok = true;
  for (unsigned i = 0; i < SCAP; i++) if (i < n) {
    char c = s[i];
    if (st == 0) { if (is_dig(c)) { st = 1; intdigits = true; } else if (c == '.') st = 2; else ok = false; }
    else if (st == 1) { if (is_dig(c)) st = 1; else if (c == '.') st = 2; else if (c == 'e' || c == 'E') st = 4; else ok = false; }
    else if (st == 2) { if (is_dig(c)) st = 3; else ok = false; }
    else if (st == 3) { if (is_dig(c)) st = 3; else if (c == 'e' || c == 'E') st = 4; else ok = false; }
    else if (st == 4) { if (is_dig(c)) st = 6; else if (c == '+' || c == '-') st = 5; else ok = false; }
    else if (st == 5) { if (is_dig(c)) st = 6; else ok = false; }
    else { if (is_dig(c)) st = 6; else ok = false; }
  }
  return ok && (st == 1 || st == 3 || st == 6 || (st == 2 && intdigits));
}
extern "C" void h_parse_numeric(void)
{
  std::string e; unsigned n = nondet_uint(); __CPROVER_assume(1 <= n && n <= SCAP); e.n = n;
  long dec = 0; bool plain = true;
  for (unsigned i = 0; i < SCAP; i++) {
    if (i < n) { char c = (char)nondet_schar(); e.d[i] = c; if (is_dig(c)) dec = dec * 10 + (c - '0'); else plain = false; }
    else e.d[i] = 0;
  }
  e.d[SCAP] = 0;
  __CPROVER_assume(is_numeric_token(e.d, n));
  verif_may_throw = false;
  Parser p; RCPBasic r = p.parse_numeric(e);
  if (plain) OBL("C17.parse_numeric.post.decimal_integer_literal_is_read_in_base_10", r.kind == 0 && r.ival == dec);
  else OBL("C17.parse_numeric.post.literal_with_point_or_exponent_is_a_float", r.kind == 1);
  REACHABLE("h_parse_numeric");
}

static bool is_ident_start(char c) { return (c >= 'a' && c <= 'z') || (c >= 'A' && c <= 'Z') || c == '_'; }
static bool is_ident_char(char c) { return is_ident_start(c) || is_dig(c); }
/* IMPLICIT_MUL token = NUMERIC followed by an identifier (tokenizer.re).  Contract of parse_implicit_mul: the numeric factor is
   parse_numeric of the longest prefix that reads as a number, the other factor is the identifier named by the rest */
extern "C" void h_parse_implicit_mul(void)
{
  one.kind = 0; one.ival = 1;
  std::string e; unsigned n = nondet_uint(); __CPROVER_assume(2 <= n && n <= SCAP); e.n = n;
  for (unsigned i = 0; i < SCAP; i++) { if (i < n) e.d[i] = (char)nondet_schar(); else e.d[i] = 0; }
  e.d[SCAP] = 0;
  /* the token: a NUMERIC prefix of length m followed by an identifier */
  unsigned m = nondet_uint(); __CPROVER_assume(1 <= m && m < n);
  __CPROVER_assume(is_numeric_token(e.d, m) && is_ident_start(e.d[m]));
  for (unsigned i = 0; i < SCAP; i++) if (i > m && i < n) __CPROVER_assume(is_ident_char(e.d[i]));
  __CPROVER_assume(!is_numeric_token(e.d, n));          /* a string that is a NUMERIC as a whole is tokenised as NUMERIC (first rule wins), never as IMPLICIT_MUL */
  unsigned split = (unsigned)stub_float_prefix(e.d, n);            /* the longest numeric prefix (>= m by maximality is NOT assumed) */
  long dec = 0; bool plain = true;
  for (unsigned i = 0; i < SCAP; i++) if (i < split) { if (is_dig(e.d[i])) dec = dec * 10 + (e.d[i] - '0'); else plain = false; }
  verif_may_throw = false;
  Parser p; RCPPair r = p.parse_implicit_mul(e);
  OBL("C17.parse_implicit_mul.post.numeric_factor_is_the_longest_numeric_prefix", plain ? (r.first.kind == 0 && r.first.ival == dec) : r.first.kind == 1);
  /* the number reader (from_chars) accepts a slightly wider language than the NUMERIC token ("6.E9"): if it consumes the whole token the other factor is 1 */
  if (split == n) OBL("C17.parse_implicit_mul.post.other_factor_is_one_when_the_number_takes_the_whole_token", r.second.kind == 0 && r.second.ival == 1);
  else OBL("C17.parse_implicit_mul.post.other_factor_is_the_identifier_named_by_the_rest", r.second.kind == 3 && r.second.ival == (long)(n - split) && last_identifier.n == n - split);
  for (unsigned i = 0; i < SCAP; i++) if (split < n && i < n - split) OBL("C17.parse_implicit_mul.post.identifier_characters", last_identifier.d[i] == e.d[split + i]);
  REACHABLE("h_parse_implicit_mul");
}

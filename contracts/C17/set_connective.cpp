/* C17 route B: the And/Or/Nand/Nor branch of Parser::functionify (setbool.inc: region from the table lookup to the end of the branch,
   extracted on every run).  Contract: when the name is in the table, every operand is checked to be a Boolean (ParseError otherwise) and
   the result is the table's connective applied to the SET OF ALL operands — for every operand count, including one.
   Stubs: RCP = opaque value id with a ghost Boolean flag, vec_basic / set_boolean fixed-capacity (CAP operands), the table lookup
   returns found / not found (which row is the business of unit name_tables). */
#include "core.h"
#ifndef CAP
#define CAP 3
#endif
int verif_thrown; bool verif_may_throw;
typedef unsigned RCPBasic;
bool g_is_bool[8];
inline bool is_a_Boolean_id(RCPBasic v) { return g_is_bool[v & 7]; }
inline RCPBasic as_boolean(RCPBasic v) { return v; }
struct vec_basic { RCPBasic d[CAP]; unsigned n; unsigned size() const { return n; } RCPBasic operator[](unsigned i) const { __CPROVER_assert(i < n, "vector index in bounds"); return d[i < CAP ? i : 0]; } };
struct set_boolean;
struct set_it { set_boolean *m; unsigned k; RCPBasic operator*() const; };
struct set_boolean {
  RCPBasic d[CAP]; unsigned n;
  set_boolean() { n = 0; }
  void insert(RCPBasic v) { bool have = false; for (unsigned i = 0; i < CAP; i++) if (i < n && d[i] == v) have = true; if (!have && n < CAP) { d[n] = v; n = n + 1; } }
  unsigned size() const { return n; }
  bool empty() const { return n == 0; }
  set_it begin() { set_it i; i.m = (set_boolean *)this; i.k = 0; return i; }
};
RCPBasic set_it::operator*() const { __CPROVER_assert(k < m->n, "dereference of a valid set iterator"); return m->d[k < CAP ? k : 0]; }
struct TableIt { int row; bool operator!=(const TableIt &o) const { return row != o.row; } bool operator==(const TableIt &o) const { return row == o.row; } };
struct Table { int found_row; TableIt find(int name) const { TableIt t; t.row = found_row; return t; } TableIt end() const { TableIt t; t.row = -1; return t; } };
Table multi_arg_set_boolean_functions;
/* ghost record of the call through the table entry */
bool g_called; set_boolean g_arg; RCPBasic g_result;
inline RCPBasic call_entry(const TableIt &it, set_boolean &s) { g_called = true; g_arg.n = s.n; for (unsigned i = 0; i < CAP; i++) g_arg.d[i] = s.d[i]; return g_result; }
struct vec_boolean { RCPBasic d[CAP]; unsigned n; vec_boolean() { n = 0; } void push_back(RCPBasic v) { __CPROVER_assert(n < CAP, "capacity of the vec_boolean stub"); if (n < CAP) { d[n] = v; n = n + 1; } }
  unsigned size() const { return n; } RCPBasic operator[](unsigned i) const { __CPROVER_assert(i < n, "vector index in bounds"); return d[i < CAP ? i : 0]; } };
Table multi_arg_vec_boolean_functions;
vec_boolean g_varg;
inline RCPBasic call_entry(const TableIt &it, vec_boolean &s) { g_called = true; g_varg.n = s.n; for (unsigned i = 0; i < CAP; i++) g_varg.d[i] = s.d[i]; return g_result; }
bool g_fell_through;
RCPBasic vec_branch(int name, vec_basic &params)
{
#include "vecbool.inc"
  g_fell_through = true; return 0;
}
RCPBasic branch(int name, vec_basic &params)
{
#include "setbool.inc"
  g_fell_through = true; return 0;
}
extern "C" void h_set_connective(void)
{
  vec_basic p; p.n = nondet_uint(); __CPROVER_assume(p.n >= 1 && p.n <= CAP);
  for (unsigned i = 0; i < CAP; i++) { p.d[i] = nondet_uint(); __CPROVER_assume(p.d[i] < 8); }
  for (unsigned i = 0; i < 8; i++) g_is_bool[i] = nondet_boolean();
  multi_arg_set_boolean_functions.found_row = nondet_int(); __CPROVER_assume(multi_arg_set_boolean_functions.found_row >= -1 && multi_arg_set_boolean_functions.found_row < 4);
  g_result = nondet_uint(); g_called = false; g_fell_through = false; verif_thrown = 0;
  bool all_bool = true; for (unsigned i = 0; i < CAP; i++) if (i < p.n && !g_is_bool[p.d[i]]) all_bool = false;
  bool found = multi_arg_set_boolean_functions.found_row != -1;
  verif_may_throw = found && !all_bool;
  RCPBasic r = branch(0, p);
  if (!found) OBL("C17.functionify.set_connective.post.unknown_name_falls_through", g_fell_through && !g_called);
  else {
    OBL("C17.functionify.set_connective.post.non_boolean_operand_is_a_ParseError", all_bool);      /* normal return only when every operand is a Boolean */
    OBL("C17.functionify.set_connective.post.result_is_the_connective_applied_to_the_operands", g_called && !g_fell_through && r == g_result);
    for (unsigned i = 0; i < CAP; i++) if (i < p.n) { bool in = false; for (unsigned k = 0; k < CAP; k++) if (k < g_arg.n && g_arg.d[k] == p.d[i]) in = true;
      OBL("C17.functionify.set_connective.post.every_operand_is_passed", in); }
    for (unsigned k = 0; k < CAP; k++) if (k < g_arg.n) { bool in = false; for (unsigned i = 0; i < CAP; i++) if (i < p.n && g_arg.d[k] == p.d[i]) in = true;
      OBL("C17.functionify.set_connective.post.only_operands_are_passed", in); }
  }
  REACHABLE("h_set_connective");
}

/* Xor/Xnor branch: the connective is applied to the SEQUENCE of all operands, in order (vec_boolean) */
extern "C" void h_vec_connective(void)
{
  vec_basic p; p.n = nondet_uint(); __CPROVER_assume(p.n >= 1 && p.n <= CAP);
  for (unsigned i = 0; i < CAP; i++) { p.d[i] = nondet_uint(); __CPROVER_assume(p.d[i] < 8); }
  for (unsigned i = 0; i < 8; i++) g_is_bool[i] = nondet_boolean();
  multi_arg_vec_boolean_functions.found_row = nondet_int(); __CPROVER_assume(multi_arg_vec_boolean_functions.found_row >= -1 && multi_arg_vec_boolean_functions.found_row < 2);
  g_result = nondet_uint(); g_called = false; g_fell_through = false; verif_thrown = 0;
  bool all_bool = true; for (unsigned i = 0; i < CAP; i++) if (i < p.n && !g_is_bool[p.d[i]]) all_bool = false;
  bool found = multi_arg_vec_boolean_functions.found_row != -1;
  verif_may_throw = found && !all_bool;
  RCPBasic r = vec_branch(0, p);
  if (!found) OBL("C17.functionify.vec_connective.post.unknown_name_falls_through", g_fell_through && !g_called);
  else {
    OBL("C17.functionify.vec_connective.post.non_boolean_operand_is_a_ParseError", all_bool);
    OBL("C17.functionify.vec_connective.post.result_is_the_connective_applied_to_the_operands", g_called && !g_fell_through && r == g_result);
    OBL("C17.functionify.vec_connective.post.all_operands_are_passed", g_varg.n == p.n);
    for (unsigned i = 0; i < CAP; i++) if (i < p.n && i < g_varg.n) OBL("C17.functionify.vec_connective.post.operands_are_passed_in_order", g_varg.d[i] == p.d[i]);
  }
  REACHABLE("h_vec_connective");
}

from vf import Unit, Entry, Piece, R

META = {"level": "model_checking"}
TOK = [R('RCP<const Basic>', 'RCPBasic', n='*', why="RCP<const Basic> -> ghost result record")]

def units(tier):
    scap = 6 if tier == 'quick' else 8
    e = Entry('h_parse_numeric', defines={'SCAP': scap}, route='B', timeout=1200, mem_gb=6, unwind=scap + 2,
              bounds="every string of the tokenizer's NUMERIC language of length <= %d" % scap)
    u = Unit('parse_numeric', 'C17', 'contracts/C17/parse_numeric.cpp',
             {'pn.inc': [Piece('symengine/parser/parser.cpp', r'RCP<const Basic> Parser::parse_numeric\(const std::string &expr\)', rules=TOK),
                         Piece('symengine/parser/parser.cpp', r'std::tuple<RCP<const Basic>, RCP<const Basic>>\s*Parser::parse_implicit_mul\(const std::string &expr\)',
                               rules=[R(r'std::tuple<RCP<const Basic>, RCP<const Basic>>', 'RCPPair', n=1, why="std::tuple of two RCPs -> pair record"),
                                      R('std::make_tuple(', 'make_pair_of(', n=1, why="std::make_tuple -> pair constructor")] + TOK)]},
             [e, Entry('h_parse_implicit_mul', defines={'SCAP': scap}, route='B', timeout=1200, mem_gb=6, unwind=scap + 2,
                       bounds="every IMPLICIT_MUL token (NUMERIC followed by an identifier) of length <= %d" % scap)], route='B',
             trusted=["std::string stub (c_str, length, size, find_first_of, operator[]), strtol per ISO C 7.22.1.4, errno, fast_float::from_chars (opaque), integer()/real_double() ghost constructors",
                      "the NUMERIC token language is transcribed by hand from tokenizer.re into the acceptor is_numeric_token (the re2c DFA itself is out of CBMC's reach, DESIGN §2.5)"],
             assumptions=["only the numeric-literal clause of C17 is covered: precedence/associativity, implicit multiplication and function-name tables live in bison's LALR tables and std::map<std::string, std::function> (not under contract)",
                          "literals longer than the bound (incl. the strtol overflow path) and the HAVE_SYMENGINE_MPFR branch are not covered"])
    return [u]

def replay_args(obl, inputs, res):
    import re
    chars = {}
    n = None
    for k, v in inputs.items():
        m = re.match(r'^e\.d\[(\d+)l?\]$', k)
        if m and 'data' in v:
            chars[int(m.group(1))] = v['data']
        if k == 'e.n' and 'data' in v:
            n = int(re.sub(r'[ul]+$', '', v['data']))
    if n is None:
        return None
    s = ""
    for i in range(n):
        d = chars.get(i, "48")
        m = re.match(r"^'(.)'$", d)
        s += m.group(1) if m else chr(int(d) & 0xff)
    return [obl, "s=" + s]

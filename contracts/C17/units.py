from vf import Unit, Entry, Piece, R

META = {"level": "model_checking"}
TOK = [R('RCP<const Basic>', 'RCPBasic', n='*', why="RCP<const Basic> -> ghost result record")]

def units(tier):
    scap = 6 if tier == 'quick' else 8
    e = Entry('h_parse_numeric', defines={'SCAP': scap}, route='B', timeout=1200, mem_gb=6, unwind=scap + 2,
              bounds="every string of the tokenizer's NUMERIC language of length <= %d" % scap)
    u = Unit('parse_numeric', 'C17', 'contracts/C17/parse_numeric.cpp',
             {'pn.inc': [Piece('symengine/parser/parser.cpp', r'RCP<const Basic> Parser::parse_numeric\(const std::string &expr\)', rules=TOK),
                         Piece('symengine/parser/parser.cpp', r'std::tuple<RCP<const Basic>, RCP<const Basic>>\s*Parser::parse_implicit_mul\(const std::string &expr\)',
                               rules=[R(r'std::tuple<RCP<const Basic>, RCP<const Basic>>', 'RCPPair', n=1, why="std::tuple of two RCPs -> pair record"),
                                      R('std::make_tuple(', 'make_pair_of(', n=1, why="std::make_tuple -> pair constructor")] + TOK)]},
             [e, Entry('h_parse_implicit_mul', defines={'SCAP': scap}, route='B', timeout=1200, mem_gb=6, unwind=scap + 2,
                       bounds="every IMPLICIT_MUL token (NUMERIC followed by an identifier) of length <= %d" % scap)], route='B',
             trusted=["std::string stub (c_str, length, size, find_first_of, operator[]), strtol per ISO C 7.22.1.4, errno, fast_float::from_chars (opaque), integer()/real_double() ghost constructors",
                      "the NUMERIC token language is transcribed by hand from tokenizer.re into the acceptor is_numeric_token (the re2c DFA itself is out of CBMC's reach, DESIGN §2.5)"],
             assumptions=["of C17 this unit covers the numeric-literal and implicit-multiplication clauses; precedence/associativity live in bison's LALR tables (not under contract); the function-name tables are unit name_tables",
                          "literals longer than the bound (incl. the strtol overflow path) and the HAVE_SYMENGINE_MPFR branch are not covered"])
    return [u, names_unit(), setconn_unit(), dispatch_unit()]

PC = 'symengine/parser/parser.cpp'
TABLES = ['functions', 'double_arg_functions', 'multi_arg_functions', 'single_arg_boolean_functions', 'single_arg_boolean_boolean_functions',
          'double_arg_boolean_functions', 'multi_arg_vec_boolean_functions', 'multi_arg_set_boolean_functions']

def names_unit():
    pieces = [Piece(PC, r'^\s*%s = \{' % t, region_end=r'^\s*\};', name='name table %s (initializer list)' % t, rules=[
        R(r'^\s*(\w+) = \{', r'static const NameEntry tbl_\1[] = {', n=1, regex=True, why="std::map<const std::string, std::function<...>> initialised from a list -> array of the same rows in the same order"),
        R(r'\{\s*"(\w+)"\s*,\s*(?:\(\w+\)\s*)?(\w+)\s*\}', r'{"\1", "\2"}', regex=True, why='{"name", [(overload cast)]f} -> {"name", "f"}: the function is named, not called; cast and std::function wrapping dropped')])
        for t in TABLES]
    b = "the eight finite name tables, every row (complete)"
    es = [Entry(h, route='F', timeout=600, mem_gb=6, unwind=80, bounds=b) for h in ('h_name_tables_single', 'h_name_tables_other')]
    return Unit('name_tables', 'C17', 'contracts/C17/name_tables.c', {'tables.inc': pieces}, es, lang='c', route='F', forbid_auto=False,
                trusted=["std::map built from an initializer list keeps the first entry of a key and find() returns it (ISO C++ [map.cons], [associative.reqmts])",
                         "the C++ compiler checks that each named function has the arity of its table (std::function signature); the table rows name the SymEngine functions of these identifiers"],
                assumptions=["the dispatch on params.size() inside Parser::functionify (auto, std::function calls, range-for) and bison's rule that calls it are not under contract: only the tables it consults are",
                             "name_spec.h is the specification of 'corresponding library function' (conventional names; unlisted names must follow the same-name / arcX->aX rule)"])

def replay_args(obl, inputs, res):
    import re
    chars = {}
    n = None
    for k, v in inputs.items():
        m = re.match(r'^e\.d\[(\d+)l?\]$', k)
        if m and 'data' in v:
            chars[int(m.group(1))] = v['data']
        if k == 'e.n' and 'data' in v:
            n = int(re.sub(r'[ul]+$', '', v['data']))
    if 'functionify.dispatch' in obl:
        return [obl, "names=1"]
    if 'set_connective' in obl or 'vec_connective' in obl:
        return [obl, "connectives=1"]
    if 'functionify' in obl:
        return [obl, "names=1"]
    if n is None:
        return None
    s = ""
    for i in range(n):
        d = chars.get(i, "48")
        m = re.match(r"^'(.)'$", d)
        s += m.group(1) if m else chr(int(d) & 0xff)
    return [obl, "s=" + s]


def setconn_unit():
    def mk(start, nm):
        return Piece(PC, start, region_end=r'^    \}', name=nm, rules=RULES)
    RULES = [
        R(r'auto (\w+) = (\w+)\.find\(name\);', r'TableIt \1 = \2.find(name);', n=1, regex=True, why="auto -> iterator type of the table stub"),
        R(r'for \(auto &(\w+) : params\) \{', r'for (unsigned vi_ = 0; vi_ < params.size(); vi_++) { RCPBasic \1 = params[vi_];', n=1, regex=True, why="range-for over params -> index loop (front end rejects range-for)"),
        R(r'is_a_Boolean\(\*(\w+)\)', r'is_a_Boolean_id(\1)', n=1, regex=True, why="type test on the ghost Boolean flag of the value id"),
        R(r'throw (\w+)\(((?:[^;()"]|"[^"]*"|\([^()]*\))*)\);', r'VERIF_THROW(\1);', n='*', regex=True, why="exception object dropped"),
        R(r'rcp_static_cast<const Boolean>\(', 'as_boolean(', n='*', regex=True, why="static cast of the RCP -> identity on value ids"),
        R(r'\b(\w+)->second\(', r'call_entry(\1, ', n=1, regex=True, why="call through the std::function stored in the table row -> ghost call record"),
        R(r'\bauto\b', 'RCPBasic', n='*', regex=True, why="any further auto names an operand handle")]
    piece = mk(r'^    auto it3 = multi_arg_set_boolean_functions\.find\(name\);', 'Parser::functionify — And/Or/Nand/Nor branch (table lookup .. end of the branch)')
    vpiece = mk(r'^    auto it2 = multi_arg_vec_boolean_functions\.find\(name\);', 'Parser::functionify — Xor/Xnor branch (table lookup .. end of the branch)')
    ev = Entry('h_vec_connective', defines={'CAP': 3}, route='B', timeout=600, mem_gb=6, unwind=10, bounds="operand lists of 1..3 operands drawn from 8 value ids (any Boolean flags)")
    e = Entry('h_set_connective', defines={'CAP': 3}, route='B', timeout=600, mem_gb=6, unwind=10, bounds="operand lists of 1..3 operands drawn from 8 value ids (any Boolean flags)")
    return Unit('set_connective', 'C17', 'contracts/C17/set_connective.cpp', {'setbool.inc': [piece], 'vecbool.inc': [vpiece]}, [e, ev], route='B',
                trusted=["vec_basic / set_boolean fixed-capacity stubs (std::set keeps one copy of equal elements), table lookup abstracted to found / not found, RCP = opaque value id"],
                assumptions=["only the And/Or/Nand/Nor and Xor/Xnor branches of Parser::functionify; the other branches of the params.size() dispatch are not under contract", "at most 3 operands"])


def dispatch_unit():
    piece = Piece(PC, r'^    if \(params\.size\(\) == 1\) \{', region_end=r'return it1->second\(params\);\s*\}', name='Parser::functionify — argument-count dispatch (params.size() == 1 .. end of the multi_arg_functions branch)', rules=[
        R(r'const auto &(\w+) = init_parser_single_arg_functions\(\);', r'Table \1 = init_parser_single_arg_functions();', n=1, regex=True, why="reference to the static table -> copy of the table stub (reference-returning functions are mis-compiled by the front end)"),
        R(r'auto (\w+) = (\w+)\.find\(name\);', r'TableIt \1 = \2.find(name);', regex=True, why="auto -> iterator type of the table stub"),
        R(r'is_a_Boolean\(\*(\w+(?:\[\w+\])?)\)', r'is_a_Boolean_id(\1)', n='*', regex=True, why="type test on the ghost Boolean flag of the value id"),
        R(r'throw (\w+)\(((?:[^;()"]|"[^"]*"|\([^()]*\))*)\);', r'VERIF_THROW(\1);', n='*', regex=True, why="exception object dropped"),
        R(r'rcp_static_cast<const Boolean>\(', 'as_boolean(', n='*', regex=True, why="static cast of the RCP -> identity on value ids"),
        R(r'\b(\w+)->second\(', r'call_entry(\1, ', regex=True, why="call through the std::function stored in the table row -> ghost call record")])
    e = Entry('h_dispatch', defines={'CAP': 4}, route='F', timeout=600, mem_gb=6, unwind=10, bounds="operand counts 0..4 (the code distinguishes 1, 2, other), every found/not-found combination of the six tables; loop-free body")
    return Unit('dispatch', 'C17', 'contracts/C17/dispatch.cpp', {'dispatch.inc': [piece]}, [e], route='F',
                trusted=["each std::map lookup abstracted to found / not found (rows: unit name_tables); RCP = opaque value id with a ghost Boolean flag; call through std::function = ghost call record"],
                assumptions=["operand lists longer than 4 behave like 3 and 4 (the code tests size() == 1 and == 2 only) — not checked beyond 4"])

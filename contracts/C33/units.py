import re, os
from vf import Unit, Entry, Piece, R, Undecided, VERIF

META = {"level": "model_checking"}
PS = 'symengine/prime_sieve.cpp'
TOK = [R('std::vector<unsigned>', 'std::uvector', n='*', why="std::vector<unsigned> -> fixed-capacity stub with bound-asserting accessors"),
       R('std::valarray<bool>', 'std::bvalarray', n='*', why="std::valarray<bool> -> stub with bound-asserting accessors")]

def check_table():
    s = open(os.path.join(VERIF, 'contracts/C33/sieve_prelude.h')).read()
    pr = [int(x) for x in re.search(r'PR\[\] = \{([^}]*)\}', s).group(1).split(',')]
    ref = [p for p in range(2, 1500) if all(p % q for q in range(2, int(p ** .5) + 1))]
    if pr != ref:
        raise Undecided("ghost prime table in sieve_prelude.h is not the primes below 1500")

def units(tier):
    check_table()
    ext = {'extend.inc': [Piece(PS, r'void Sieve::_extend\(unsigned limit\)', rules=TOK)]}
    grid = [(10, 4, 0, 120), (10, 8, 0, 120), (12, 4, 0, 120), (12, 8, 0, 120)]
    # concrete limits that take the recursive branch (sqrt(limit) >= first unsieved number, i.e. limit >= 900 from the smallest cache) over several
    # segments: with a concrete limit the whole run is constant-folded, so these are cheap; they are single inputs, not a symbolic window
    grid += [(10, 16, 961, 961), (10, 8, 1000, 1000), (12, 64, 1444, 1444)]
    if tier == 'thorough':
        grid += [(11, 1, 0, 100), (11, 2, 0, 100), (11, 3, 0, 110), (15, 16, 0, 200), (20, 8, 0, 200)]
        # windows of 100 limits; the last one crosses the recursion threshold sqrt(limit) >= start (limit >= 900). Each window costs 15-40 min,
        # so only three are kept (all nine + two were measured once: each holds on the repaired tree)
        grid += [(10, 8, 100, 200), (10, 8, 200, 300)]
        if os.environ.get('VERIF_C33_RECURSIVE_WINDOW'):          # experimental: the window that reaches the recursive branch (ran out of memory in 2 of 3 measurements)
            grid += [(10, 32, 900, 960)]
    ents = []
    PRT = [p for p in range(2, 1500) if all(p % q for q in range(2, int(p ** .5) + 1))]
    for n0, seg, lo, hi in grid:
        start0 = PRT[n0 - 1] + 1
        vcap = len([p for p in PRT if p <= hi + 2 * seg + 2]) + 4
        nsq = len([p for p in PRT if p * p <= hi + 2 * seg + 2]) + 2
        uw = ['h_extend.0:%d' % (n0 + 1), 'h_extend.1:%d' % (vcap + 1), 'stub_slice_fill.0:%d' % (seg + 3), 'stub_isqrt.0:%d' % (int(hi ** .5) + 3),
              'Sieve::_extend(unsigned_int).0:%d' % nsq, 'Sieve::_extend(unsigned_int).1:%d' % (seg + 3),
              'Sieve::_extend(unsigned_int).2:%d' % ((max(hi - start0, 0)) // (2 * seg) + 3)]
        ents.append(Entry('h_extend', defines={'N0': n0, 'SEG': seg, 'LMIN': lo, 'LMAX': hi, 'VCAP': vcap, 'SEGCAP': max(seg, 1)},
                          route='B', timeout=900 if tier == 'quick' else 3000, mem_gb=(8 if hi <= 300 else 16), unwindset=uw, unwind=(1 if int(hi ** .5) < start0 else 2), object_bits=12,
                          bounds="cached prefix length %d, segment %d bits, limit symbolic in [%d,%d]; loops unwound to their exact maxima (unwinding assertions on)" % (n0, seg, lo, hi)))
    extend = Unit('extend', 'C33', 'contracts/C33/extend.cpp', ext, ents, route='B',
                  trusted=["container stubs contracts/C33/sieve_prelude.h (std::vector<unsigned>, std::valarray<bool>, std::slice, std::min per the standard; "
                           "static_cast<unsigned>(std::floor(std::sqrt(x))) is the integer square root)",
                           "ghost prime table PR (primes below 1500) — re-checked by trial division in contracts/C33/units.py on every run"],
                  assumptions=["_sieve_size is set directly by the harness (set_sieve_size only yields multiples of 8192 bits, too large to unroll); the algorithm depends on it only through 'segment'",
                               "limits > 1000, segment sizes outside the grid (incl. the production value 262144) and the HAVE_SYMENGINE_PRIMESIEVE branch are not covered",
                               "unsigned wrap-around for limits within 2*segment of 2^32 is not covered"])
    opieces = {'ops.inc': [Piece(PS, r'void Sieve::set_clear\(bool clear\)'), Piece(PS, r'void Sieve::clear\(\)', rules=TOK),
                           Piece(PS, r'void Sieve::set_sieve_size\(unsigned size\)'),
                           Piece(PS, r'void Sieve::generate_primes\(std::vector<unsigned> &primes, unsigned limit\)',
                                 rules=[R('auto it = ', 'unsigned *it = ', n=1, why="auto -> the deduced iterator type (std::vector<unsigned>::iterator, a pointer in the stub)")] + TOK),
                           Piece(PS, r'Sieve::iterator::iterator\(unsigned max\)'), Piece(PS, r'Sieve::iterator::iterator\(\)'),
                           Piece(PS, r'Sieve::iterator::~iterator\(\)'),
                           Piece(PS, r'unsigned Sieve::iterator::next_prime\(\)', rules=TOK)]}
    b = "any INV state with cache length 10..30, either _clear, any _sieve_size >= 1; limits below the 30th prime"
    ops = Unit('operations', 'C33', 'contracts/C33/ops.cpp', opieces,
               [Entry('h_generate', route='F', timeout=300, unwindset=['stub_upper_bound.0:65', 'stub_lower_bound.0:65', 'stub_copy.0:65'], defines={'VCAP': 64}, bounds=b),
                Entry('h_next_prime', route='F', timeout=300, defines={'VCAP': 64}, bounds=b),
                Entry('h_settings', route='F', timeout=300, defines={'VCAP': 64}, bounds=b)],
               route='F',
               trusted=["Sieve::_extend is replaced by its contract (INV in; INV out, cache not shrunk, covers limit) — that contract is checked only as a bounded stand-in in unit 'extend'",
                        "std::upper_bound / std::copy / back_inserter / vector::erase/reserve by their standard semantics (stubs)"],
               assumptions=["set_sieve_size(0) breaks INV (_extend then never advances): size >= 1 is an unchecked precondition; termination is not proved"])
    return [extend, ops]

def replay_args(obl, inputs, res):
    d = res.get("_e").defines if res.get("_e") else res.get("defines", {})
    args = [obl] + ["%s=%s" % kv for kv in sorted(d.items())]
    for k in ('limit', 'idx', 'lim', 'which', 'n', 's'):
        if k in inputs:
            args.append("%s=%s" % (k, inputs[k].get("binary") or inputs[k].get("data")))
    return args

/* container stubs for prime_sieve.cpp: the members the bodies use, every access asserting its bound
   (so an out-of-range access in the real code is an obligation, not UB).  TRUSTED: these are the
   standard semantics of std::vector<unsigned>, std::valarray<bool>, std::slice, std::min,
   std::upper_bound, std::copy/back_inserter and floor(sqrt(unsigned)). */
#ifndef VERIF_SIEVE_PRELUDE_H
#define VERIF_SIEVE_PRELUDE_H
#include "core.h"
#ifndef VCAP
#define VCAP 64
#endif
#ifndef SEGCAP
#define SEGCAP 16
#endif
extern "C" void stub_slice_fill(bool *d, unsigned n, unsigned start, unsigned size, unsigned stride, bool v)
{
  for (unsigned k = 0; k < size; k++) {
    unsigned idx = start + k * stride;
    __CPROVER_assert(idx < n, "C33.safety.valarray_slice_in_bounds");
    if (idx < n) d[idx] = v;
  }
}
/* floor(sqrt(x)) for x < 2^24: what static_cast<unsigned>(std::floor(std::sqrt(x))) yields under IEEE correctly-rounded sqrt */
extern "C" unsigned stub_isqrt(unsigned x) { unsigned r = 0; while ((r + 1) * (r + 1) <= x) r++; return r; }
namespace std {
struct uvector {
  unsigned d[VCAP]; unsigned n;
  unsigned size() const { return n; }
  unsigned &operator[](unsigned i) { __CPROVER_assert(i < n, "C33.safety.vector_index_in_bounds"); __CPROVER_assert(i < VCAP, "stub capacity (index)"); return d[i < VCAP ? i : 0]; }
  unsigned &back() { __CPROVER_assert(n > 0, "C33.safety.back_on_nonempty_vector"); return d[n - 1]; }
  unsigned *begin() { return &d[0]; }
  unsigned *end() { return &d[0] + n; }
  void erase(unsigned *a, unsigned *b) { __CPROVER_assert(b == &d[0] + n && a >= &d[0] && a <= b, "C33.safety.erase_range_is_begin_plus_k_to_end_with_k_le_size"); n = (unsigned)(a - &d[0]); }
  void push_back(unsigned v) { __CPROVER_assert(n < VCAP, "stub capacity"); if (n < VCAP) { d[n] = v; n = n + 1; } }
  bool empty() const { return n == 0; }
  unsigned &front() { __CPROVER_assert(n > 0, "C33.safety.front_on_nonempty_vector"); return d[0]; }
  unsigned &at(unsigned i) { __CPROVER_assert(i < n, "C33.safety.vector_index_in_bounds"); return d[i < VCAP ? i : 0]; }
  void pop_back() { __CPROVER_assert(n > 0, "C33.safety.pop_back_on_nonempty_vector"); if (n > 0) n = n - 1; }
  void resize(unsigned k) { __CPROVER_assert(k <= VCAP, "stub capacity"); n = k; }
  void reserve(long k) { __CPROVER_assert(k >= 0, "C33.safety.reserve_nonnegative"); }
};
struct slice { unsigned start, size, stride; slice(unsigned a, unsigned b, unsigned c) { start = a; size = b; stride = c; } };
struct bvalarray;
struct slice_ref { bvalarray *a; unsigned start, size, stride; void operator=(bool v); };
struct bvalarray {
  bool d[SEGCAP]; unsigned n;
  bvalarray(unsigned k) { __CPROVER_assert(k <= SEGCAP, "stub capacity (valarray)"); n = k; }
  bool &operator[](unsigned i) { __CPROVER_assert(i < n, "C33.safety.valarray_index_in_bounds"); return d[i < SEGCAP ? i : 0]; }
  slice_ref operator[](slice s) { slice_ref r; r.a = this; r.start = s.start; r.size = s.size; r.stride = s.stride; return r; }
};
inline void slice_ref::operator=(bool v) { stub_slice_fill(a->d, a->n, start, size, stride, v); }
inline unsigned min(unsigned a, unsigned b) { return a < b ? a : b; }
inline unsigned max(unsigned a, unsigned b) { return a < b ? b : a; }
inline unsigned sqrt(unsigned x) { return stub_isqrt(x); }
inline unsigned floor(unsigned x) { return x; }
struct back_ins { uvector *v; };
inline back_ins back_inserter(uvector &v) { back_ins b; b.v = &v; return b; }
}
/* std::upper_bound / std::copy by their standard semantics (linear versions) */
extern "C" unsigned *stub_upper_bound(unsigned *a, unsigned *b, unsigned x) { unsigned *p = a; for (unsigned k = 0; k < VCAP; k++) if (p != b && !(x < *p)) p = p + 1; return p; }
extern "C" void stub_copy(unsigned *a, unsigned *b, std::uvector *out) { unsigned *p = a; for (unsigned k = 0; k < VCAP; k++) if (p != b) { out->push_back(*p); p = p + 1; } }
extern "C" unsigned *stub_lower_bound(unsigned *a, unsigned *b, unsigned x) { unsigned *p = a; for (unsigned k = 0; k < VCAP; k++) if (p != b && *p < x) p = p + 1; return p; }
namespace std {
inline unsigned *lower_bound(unsigned *a, unsigned *b, unsigned x) { return stub_lower_bound(a, b, x); }
inline unsigned *upper_bound(unsigned *a, unsigned *b, unsigned x) { return stub_upper_bound(a, b, x); }
inline void copy(unsigned *a, unsigned *b, back_ins o) { stub_copy(a, b, o.v); }
}
class Sieve {
public:
  static void _extend(unsigned limit);
  static unsigned _sieve_size; static bool _clear;
  static void generate_primes(std::uvector &primes, unsigned limit);
  static void clear(); static void set_sieve_size(unsigned size); static void set_clear(bool clear);
  class iterator { public: unsigned _index; unsigned _limit; iterator(unsigned max); iterator(); ~iterator(); unsigned next_prime(); };
};
static std::uvector g_primes;
static std::uvector &sieve_primes() { return g_primes; }
/* ghost: the prime sequence (checked by h_table) */
static const unsigned PR[] = {2,3,5,7,11,13,17,19,23,29,31,37,41,43,47,53,59,61,67,71,73,79,83,89,97,101,103,107,109,113,127,131,137,139,149,151,157,163,167,173,179,181,191,193,197,199,211,223,227,229,233,239,241,251,257,263,269,271,277,281,283,293,307,311,313,317,331,337,347,349,353,359,367,373,379,383,389,397,401,409,419,421,431,433,439,443,449,457,461,463,467,479,487,491,499,503,509,521,523,541,547,557,563,569,571,577,587,593,599,601,607,613,617,619,631,641,643,647,653,659,661,673,677,683,691,701,709,719,727,733,739,743,751,757,761,769,773,787,797,809,811,821,823,827,829,839,853,857,859,863,877,881,883,887,907,911,919,929,937,941,947,953,967,971,977,983,991,997,1009,1013,1019,1021,1031,1033,1039,1049,1051,1061,1063,1069,1087,1091,1093,1097,1103,1109,1117,1123,1129,1151,1153,1163,1171,1181,1187,1193,1201,1213,1217,1223,1229,1231,1237,1249,1259,1277,1279,1283,1289,1291,1297,1301,1303,1307,1319,1321,1327,1361,1367,1373,1381,1399,1409,1423,1427,1429,1433,1439,1447,1451,1453,1459,1471,1481,1483,1487,1489,1493,1499};
#define NPR (sizeof(PR) / sizeof(PR[0]))
#endif

/* C33: the public sieve operations (real text in ops.inc) verified from an ARBITRARY state satisfying the
   representation invariant INV, with Sieve::_extend replaced by its contract (checked separately in
   extend.cpp).  One obligation set per operation replaces the unbounded set of call histories:
   INV-in => INV-out, so the number and order of earlier calls is irrelevant.
   INV: the cache holds the first n primes, 10 <= n; _sieve_size >= 1.                                  */
#include "sieve_prelude.h"
int verif_thrown; bool verif_may_throw;
bool Sieve::_clear = true; unsigned Sieve::_sieve_size = 8;
#define NMAX 30
/* CONTRACT of Sieve::_extend used in place of its body */
void Sieve::_extend(unsigned limit)
{
  unsigned n = g_primes.n, n1 = nondet_uint();
  OBL("C33.extend.pre.INV_holds_at_call", 10 <= n && n <= NMAX && Sieve::_sieve_size >= 1);
  __CPROVER_assume(n <= n1 && n1 <= NMAX && PR[n1] > limit);
  for (unsigned k = 0; k < NMAX; k++) if (k >= n && k < n1) g_primes.d[k] = PR[k];
  g_primes.n = n1;
}
#include "ops.inc"
/* any INV state; positions beyond size() still hold what an earlier, longer cache wrote there (erase does not
   overwrite) or arbitrary words if never written */
static void any_inv_state(void)
{
  unsigned n = nondet_uint(); __CPROVER_assume(10 <= n && n <= NMAX);
  g_primes.n = n;
  for (unsigned k = 0; k < NMAX; k++) g_primes.d[k] = PR[k];
  Sieve::_clear = nondet_boolean();
  Sieve::_sieve_size = nondet_uint(); __CPROVER_assume(Sieve::_sieve_size >= 1);
}
static void assert_inv(void)
{
  OBL("C33.INV.size", 10 <= g_primes.n && g_primes.n <= NMAX);
  for (unsigned k = 0; k < NMAX; k++) if (k < g_primes.n) OBL("C33.INV.cache_is_prefix_of_primes", g_primes.d[k] == PR[k]);
  OBL("C33.INV.sieve_size_positive", Sieve::_sieve_size >= 1);
}
extern "C" void h_generate(void)
{
  any_inv_state();
  unsigned limit = nondet_uint(); __CPROVER_assume(limit < PR[NMAX - 1]);
  bool clr = Sieve::_clear;
  std::uvector out; out.n = 0;
  Sieve::generate_primes(out, limit);
  assert_inv();
  for (unsigned k = 0; k < NMAX; k++) if (k < out.n) OBL("C33.generate_primes.post.output_is_the_primes_up_to_limit_in_order", out.d[k] == PR[k] && PR[k] <= limit);
  OBL("C33.generate_primes.post.no_prime_up_to_limit_missing", out.n < NMAX && PR[out.n < NMAX ? out.n : 0] > limit);
  OBL("C33.generate_primes.post.cache_cleared_iff_clear_flag", !clr || g_primes.n == 10);
  REACHABLE("h_generate");
}
extern "C" void h_next_prime(void)
{
  any_inv_state();
  unsigned idx = nondet_uint(), lim = nondet_uint();
  __CPROVER_assume(idx <= NMAX - 2);
  Sieve::iterator it(lim);
  OBL("C33.iterator.ctor.starts_at_first_prime", it._index == 0 && it._limit == lim);
  /* history: the iterator has produced PR[0..idx-1] (each call advanced _index by one, see the postcondition);
     the shared cache may have been cleared and re-extended meanwhile, so idx may exceed size() */
  it._index = idx;
  __CPROVER_assume(lim == 0 || lim < PR[NMAX - 1]);
  __CPROVER_assume(idx >= 1 || g_primes.n > 0);
  __CPROVER_assume(lim != 0 || idx == 0 || 2 * PR[idx - 1] < PR[NMAX - 1]);
#ifdef KF_C33_ITER_STALE_INDEX
  __CPROVER_assume(idx <= g_primes.n);
#endif
  unsigned p = it.next_prime();
  assert_inv();
  if (lim == 0 || PR[idx] <= lim) OBL("C33.next_prime.post.yields_the_next_prime_no_gap_no_repeat", p == PR[idx] && it._index == idx + 1);
  else OBL("C33.next_prime.post.value_above_limit_once_exhausted", p > lim);
  REACHABLE("h_next_prime");
}
extern "C" void h_settings(void)
{
  any_inv_state();
  unsigned n = g_primes.n;
  int which = nondet_int();
  if (which == 0) { Sieve::clear(); OBL("C33.clear.post.truncates_to_ten", g_primes.n == 10); }
  else if (which == 1) { bool b = nondet_boolean(); Sieve::set_clear(b); OBL("C33.set_clear.post", Sieve::_clear == b && g_primes.n == n); }
  else if (which == 2) {
    unsigned s = nondet_uint(); __CPROVER_assume(s >= 1 && s <= 524287u);      /* size in KiB; 0 would break INV (documented precondition, see DESIGN) */
    Sieve::set_sieve_size(s); OBL("C33.set_sieve_size.post", Sieve::_sieve_size == s * 8192u && g_primes.n == n);
  } else { bool c = Sieve::_clear; { Sieve::iterator it; OBL("C33.iterator.default_ctor.unbounded_from_first_prime", it._index == 0 && it._limit == 0); } OBL("C33.iterator.dtor.clears_iff_flag", g_primes.n == (c ? 10u : n)); }
  assert_inv();
  REACHABLE("h_settings");
}

/* C33 route B: the real Sieve::_extend (extend.inc) against the container stubs.
   Grid point = concrete (N0 = cached prefix length, SEG = segment size in bits), limit symbolic in [LMIN, LMAX].
   Contract of _extend:  requires INV (cache = first N0 >= 10 primes, _sieve_size >= 1)
                         ensures  INV, size not shrunk, every prime <= limit is in the cache;
                         every vector / valarray / slice index in range. */
#include "sieve_prelude.h"
int verif_thrown; bool verif_may_throw;
bool Sieve::_clear = true; unsigned Sieve::_sieve_size = 8;
#include "extend.inc"
#ifndef LMIN
#define LMIN 0
#endif
extern "C" void h_extend(void)
{
  unsigned n0 = N0, limit = nondet_uint();
  g_primes.n = n0;
  for (unsigned k = 0; k < N0; k++) g_primes.d[k] = PR[k];
  __CPROVER_assume(LMIN <= limit && limit <= LMAX);
  Sieve::_sieve_size = SEG;
  Sieve::_extend(limit);
  unsigned n1 = g_primes.n;
  OBL("C33.extend.post.cache_not_shrunk", n1 >= n0 && n1 < NPR);
  for (unsigned k = 0; k < VCAP; k++) if (k < n1) OBL("C33.extend.post.cache_is_prefix_of_primes", g_primes.d[k] == PR[k]);
  OBL("C33.extend.post.covers_limit", n1 < NPR && PR[n1 < NPR ? n1 : 0] > limit);
  REACHABLE("h_extend");
}

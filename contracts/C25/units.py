import sys, os
from vf import Unit, Entry, Piece, R

META = {"level": "proof"}

SP = 'symengine/sparse_matrix.cpp'

def sig_rule(fn):
    return R(r'bool CSRMatrix::%s\(const std::vector<unsigned> &p_,\s*const std::vector<unsigned> &j_,\s*unsigned row_\)' % fn,
             'bool %s(const unsigned *p_, const unsigned *j_, unsigned row_)\nCONTRACT_%s' % (fn, fn), n=1, regex=True,
             why="signature-only rewrite to C: std::vector<unsigned>& -> pointer (length is the ghost the contract names); contract attached")

def pred_pieces():
    sig = r'bool CSRMatrix::%s\(const std::vector<unsigned> &p_,'
    return [
        Piece(SP, sig % 'csr_has_duplicates', rules=[
            sig_rule('csr_has_duplicates'),
            R('for (unsigned i = 0; i < row_; i++) {', 'for (unsigned i = 0; i < row_; i++) INV_dup_outer {', n=1, why="loop contract injected after pinned header"),
            R('for (unsigned j = p_[i]; j + 1 < p_[i + 1]; j++) {', 'for (unsigned j = p_[i]; j + 1 < p_[i + 1]; j++) INV_dup_inner {', n=1)]),
        Piece(SP, sig % 'csr_has_sorted_indices', rules=[
            sig_rule('csr_has_sorted_indices'),
            R('for (unsigned i = 0; i < row_; i++) {', 'for (unsigned i = 0; i < row_; i++) INV_srt_outer {', n=1),
            R('for (unsigned jj = p_[i]; jj + 1 < p_[i + 1]; jj++) {', 'for (unsigned jj = p_[i]; jj + 1 < p_[i + 1]; jj++) INV_srt_inner {', n=1)]),
        Piece(SP, sig % 'csr_has_canonical_format', rules=[
            sig_rule('csr_has_canonical_format'),
            R('for (unsigned i = 0; i < row_; i++) {', 'for (unsigned i = 0; i < row_; i++) INV_can_mono {', n=1)]),
    ]

def units(tier):
    K = 16 if tier == 'quick' else 32
    b = "unbounded iteration (inductive loop invariants); array lengths capped at K=%d by the precondition" % K
    def E(h, fn, nloops, replace=(), timeout=600):
        e = Entry(h, defines={'K': '%du' % K}, enforce=fn, replace=replace, loop_contracts=True, solver='minisat',
                  timeout=timeout, mem_gb=6, bounds=b, extra=['--unsigned-overflow-check'])
        e.nloops = nloops
        return e
    pred = Unit('csr_predicates', 'C25', 'contracts/C25/csr_pred.c', {'pred.inc': pred_pieces()},
                [E('h_dup', 'csr_has_duplicates', 2), E('h_srt', 'csr_has_sorted_indices', 2),
                 E('h_can', 'csr_has_canonical_format', 1, replace=['csr_has_sorted_indices', 'csr_has_duplicates'], timeout=1800)],
                lang='c', route='P', forbid_auto=False,
                trusted=["std::vector<unsigned>::operator[] on an index below size() is the array access p_[i] (signature rewrite to pointers)"],
                assumptions=["array lengths <= K (stated per run)"])
    return [pred, get_unit(tier), ops_unit(tier)]

def get_unit(tier):
    K = 16 if tier == 'quick' else 32
    piece = Piece(SP, r'RCP<const Basic> CSRMatrix::get\(unsigned i, unsigned j\) const', rules=[
        R('RCP<const Basic> CSRMatrix::get(unsigned i, unsigned j) const',
          'RCPBasic get(const unsigned *p_, const unsigned *j_, const RCPBasic *x_, unsigned row_, unsigned col_, unsigned i, unsigned j)\nCONTRACT_get', n=1,
          why="signature-only rewrite to C: the data members the body reads (p_, j_, x_, row_, col_) become parameters; contract attached"),
        R('while (row_start < row_end) {', 'while (row_start < row_end) INV_get {', n=1, why="loop contract injected after the pinned loop header")])
    e = Entry('h_get', defines={'K': '%du' % K}, enforce='get', loop_contracts=True, solver='minisat', timeout=900, mem_gb=6,
              bounds="unbounded row length (inductive loop invariant + decreases); array lengths capped at K=%d by the precondition" % K, extra=['--unsigned-overflow-check'])
    e.nloops = 1
    region = Piece(SP, r'^    unsigned k = p_\[i\];\n    unsigned row_end = p_\[i \+ 1\];', region_end=r'k = mid \+ 1;\s*\}\s*\}', rules=[
        R('while (k < end) {', 'while (k < end) INV_setsearch {', n=1, why="loop contract injected after the pinned loop header")],
        name='CSRMatrix::set — search region (first statement .. end of the while loop)')
    e2 = Entry('h_setsearch', defines={'K': '%du' % K}, enforce='set_search', loop_contracts=True, solver='minisat', timeout=900, mem_gb=6,
               bounds="unbounded row length (inductive loop invariant + decreases); array lengths capped at K=%d by the precondition" % K, extra=['--unsigned-overflow-check'])
    e2.nloops = 1
    return Unit('csr_get', 'C25', 'contracts/C25/csr_get.c', {'get.inc': [piece], 'setsearch.inc': [region]}, [e, e2], lang='c', route='P', forbid_auto=False,
                trusted=["member function -> C function with the data members as parameters (signature-only rewrite); RCP<const Basic> is an opaque value id"],
                assumptions=["array lengths <= K (stated per run); x_ entries are opaque ids (reference counting not modelled)"])

CTOK = [R('std::vector<unsigned>', 'uvec', n='*', why="std::vector<unsigned> -> fixed-capacity stub with bound-asserting accessors and position iterators"),
        R('RCP<const Basic>', 'RCPBasic', n='*', why="RCP<const Basic> -> field element (prelude/field.h)"),
        R('std::move(', 'std_move(', n='*', why="rvalue conversion is not supported by the front end: identity on lvalues"),
        R(r'throw (\w+)\(((?:[^;()"]|"[^"]*"|\([^()]*\))*)\);', r'VERIF_THROW(\1);', n='*', regex=True, why="exception object dropped (DESIGN §8)")]

def ops_pieces():
    P = lambda sig, rules=(): Piece(SP, sig, rules=list(rules) + CTOK)
    return [
        P(r'bool CSRMatrix::is_canonical\(\) const'),
        P(r'RCP<const Basic> CSRMatrix::get\(unsigned i, unsigned j\) const'),
        P(r'void CSRMatrix::set\(unsigned i, unsigned j, const RCP<const Basic> &e\)'),
        P(r'bool CSRMatrix::csr_has_duplicates\(const std::vector<unsigned> &p_,'),
        P(r'bool CSRMatrix::csr_has_sorted_indices\(const std::vector<unsigned> &p_,'),
        P(r'bool CSRMatrix::csr_has_canonical_format\(const std::vector<unsigned> &p_,'),
        P(r'void CSRMatrix::csr_sum_duplicates\(std::vector<unsigned> &p_,'),
        P(r'CSRMatrix CSRMatrix::from_coo\(unsigned row, unsigned col,',
          [R('numeric_cast<unsigned>(', 'numeric_cast_unsigned(', n=1, why="template syntax; identity on an in-range size")]),
        P(r'CSRMatrix CSRMatrix::transpose\(bool conjugate\) const',
          [R('const auto nnz = j_.size();', 'const unsigned nnz = j_.size();', n=1, why="auto -> explicit type (vector size, cast to unsigned in every use)"),
           R('const auto ci = j_[i];', 'const unsigned ci = j_[i];', n=1, why="auto -> the element type"),
           R('std::partial_sum(p.begin(), p.end(), p.begin());', 'partial_sum_inplace(p);', n=1, why="iterator-range algorithm -> stub with the standard semantics (iterators are positions in the stub)"),
           R('SymEngine::conjugate(', 'field_conjugate(', n=1, why="conjugate of an exact real number is the identity in the field model")]),
        P(r'void CSRMatrix::conjugate\(MatrixBase &result\) const',
          [R('void CSRMatrix::conjugate(MatrixBase &result) const', 'void CSRMatrix::conjugate(CSRMatrix &result) const', n=1, why="MatrixBase& -> the stub class (no inheritance in stubs); is_a/down_cast become the identity below"),
           R('is_a<CSRMatrix>(result)', 'true', n=1, why="the harness passes a CSRMatrix"),
           R('auto &r = down_cast<CSRMatrix &>(result);', 'CSRMatrix &r = result;', n=1, why="auto& and down_cast on the stub class"),
           R('SymEngine::conjugate(', 'field_conjugate(', n=1, why="conjugate of an exact real number is the identity in the field model"),
           R('std::vector<unsigned> p(p_), j(j_);', 'uvec p(p_); uvec j(j_);', n=1, why="two declarators of the stub vector type")]),
        P(r'void csr_matmat_pass1\(const CSRMatrix &A, const CSRMatrix &B, CSRMatrix &C\)',
          [R('throw std::overflow_error("nnz of the result is too large");', 'VERIF_THROW(overflow_error);', n=1, why="exception object dropped (DESIGN §8)")]),
        P(r'void csr_matmat_pass2\(const CSRMatrix &A, const CSRMatrix &B, CSRMatrix &C\)',
          [R('std::vector<int>', 'ivec', n=1, why="std::vector<int> -> fixed-capacity stub")]),
        P(r'void csr_diagonal\(const CSRMatrix &A, DenseMatrix &D\)'),
        P(r'void csr_scale_rows\(CSRMatrix &A, const DenseMatrix &X\)'),
        P(r'void csr_scale_columns\(CSRMatrix &A, const DenseMatrix &X\)'),
        P(r'void csr_binop_csr_canonical\(',
          [R(r'RCP<const Basic> \(&bin_op\)\(const RCP<const Basic> &,\s*const RCP<const Basic> &\)\)', 'RCPBasic (*bin_op)(const RCPBasic &, const RCPBasic &))', n=1, regex=True,
             why="reference to function -> pointer to function (same call syntax)")]),
    ]

def ops_unit(tier):
    shapes = [(2, 3, 6)] if tier == 'quick' else [(2, 3, 6), (3, 3, 6), (3, 2, 6)]
    ents = []
    hs = (['h_matmat'] if tier == 'thorough' else []) + ['h_conjugate', 'h_get', 'h_set', 'h_set_twice', 'h_sum_duplicates', 'h_from_coo', 'h_transpose', 'h_diagonal', 'h_scale', 'h_binop']
    for si, (nr, nc, nnz) in enumerate(shapes):
        for h in hs:
            if h == 'h_matmat' and si > 0:
                continue          # fixed small shape: once
            cap = 9
            r, c, z = nr, nc, nnz
            if tier == 'quick' and h == 'h_binop':
                r, c, z = 2, 3, 4          # wide on purpose: a column index may exceed the row count
            if tier == 'quick' and h == 'h_from_coo':
                z = 4
            extra = {}
            if h == 'h_matmat':          # A is 2x2, B is 2x3 (more columns than A): small on purpose, the two nested product loops are expensive
                r, c, z, extra = 2, 2, 4, {'NK2': 3}
            ents.append(Entry(h, defines=dict({'FP': 3, 'NR': r, 'NC': c, 'NNZ': z, 'CAP': cap}, **extra), route='B', timeout=1500 if tier == 'quick' else 3600, mem_gb=8,
                              unwind=cap + 2, bounds="%dx%d matrices over GF(3), at most %d stored entries, every sparsity pattern and value; unwinding %d with unwinding assertions" % (r, c, z, cap + 2)))
    # one long row (6 stored entries): the binary searches of get/set go through several bisection steps
    for h in ('h_get', 'h_set'):
        ents.append(Entry(h, defines={'FP': 3, 'NR': 1, 'NC': 6, 'NNZ': 6, 'CAP': 9}, route='B', timeout=1500 if tier == 'quick' else 3600, mem_gb=8, unwind=11,
                          bounds="1x6 matrices over GF(3), at most 6 stored entries (one long row), every sparsity pattern and value; unwinding 11 with unwinding assertions"))
    return Unit('csr_operations', 'C25', 'contracts/C25/ops.cpp', {'csr.inc': ops_pieces()}, ents, route='B',
                trusted=["field prelude prelude/field.h (entries are elements of GF(3): exact add/sub/mul and is_zero)",
                         "contracts/C25/csr_prelude.h: std::vector<unsigned> / vec_basic stubs with position iterators, std::swap, std::partial_sum, DenseMatrix get/set",
                         "csr_sort_indices is NOT under contract (lambda passed to std::sort): replaced by its assumed contract, realised by an insertion sort"],
                assumptions=["symbolic (non-numeric) entries where is_zero is indeterminate, jacobian and CSRMatrix::eq are not covered",
                             "sizes beyond the stated bound"])



def replay_args(obl, inputs, res):
    import re
    e = res.get("_e")
    d = e.defines if e else res.get("defines", {})
    if 'NR' not in d:
        return None
    norm = {}
    for k, v in inputs.items():           # later assignments win; CBMC prints array indices as 0l / 0
        k2 = re.sub(r'\[(\d+)l\]', r'[\1]', k)
        if re.match(r'^(M|A|B|ci|cj|cx)\.|^(si|sj|sv|op|nnz|rows)$|^s\[', k2) and 'data' in v:
            norm[k2] = re.sub(r'[ul]+$', '', v['data'])
    return [obl, "NR=%s" % d['NR'], "NC=%s" % d['NC']] + ["%s=%s" % kv for kv in sorted(norm.items()) if kv[1].lstrip('-').isdigit()]

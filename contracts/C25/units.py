import sys, os
from vf import Unit, Entry, Piece, R

META = {"level": "proof"}

SP = 'symengine/sparse_matrix.cpp'

def sig_rule(fn):
    return R(r'bool CSRMatrix::%s\(const std::vector<unsigned> &p_,\s*const std::vector<unsigned> &j_,\s*unsigned row_\)' % fn,
             'bool %s(const unsigned *p_, const unsigned *j_, unsigned row_)\nCONTRACT_%s' % (fn, fn), n=1, regex=True,
             why="signature-only rewrite to C: std::vector<unsigned>& -> pointer (length is the ghost the contract names); contract attached")

def pred_pieces():
    sig = r'bool CSRMatrix::%s\(const std::vector<unsigned> &p_,'
    return [
        Piece(SP, sig % 'csr_has_duplicates', rules=[
            sig_rule('csr_has_duplicates'),
            R('for (unsigned i = 0; i < row_; i++) {', 'for (unsigned i = 0; i < row_; i++) INV_dup_outer {', n=1, why="loop contract injected after pinned header"),
            R('for (unsigned j = p_[i]; j + 1 < p_[i + 1]; j++) {', 'for (unsigned j = p_[i]; j + 1 < p_[i + 1]; j++) INV_dup_inner {', n=1)]),
        Piece(SP, sig % 'csr_has_sorted_indices', rules=[
            sig_rule('csr_has_sorted_indices'),
            R('for (unsigned i = 0; i < row_; i++) {', 'for (unsigned i = 0; i < row_; i++) INV_srt_outer {', n=1),
            R('for (unsigned jj = p_[i]; jj + 1 < p_[i + 1]; jj++) {', 'for (unsigned jj = p_[i]; jj + 1 < p_[i + 1]; jj++) INV_srt_inner {', n=1)]),
        Piece(SP, sig % 'csr_has_canonical_format', rules=[
            sig_rule('csr_has_canonical_format'),
            R('for (unsigned i = 0; i < row_; i++) {', 'for (unsigned i = 0; i < row_; i++) INV_can_mono {', n=1)]),
    ]

def units(tier):
    K = 16 if tier == 'quick' else 32
    b = "unbounded iteration (inductive loop invariants); array lengths capped at K=%d by the precondition" % K
    def E(h, fn, nloops, replace=(), timeout=600):
        e = Entry(h, defines={'K': '%du' % K}, enforce=fn, replace=replace, loop_contracts=True, solver='minisat',
                  timeout=timeout, mem_gb=6, bounds=b, extra=['--unsigned-overflow-check'])
        e.nloops = nloops
        return e
    pred = Unit('csr_predicates', 'C25', 'contracts/C25/csr_pred.c', {'pred.inc': pred_pieces()},
                [E('h_dup', 'csr_has_duplicates', 2), E('h_srt', 'csr_has_sorted_indices', 2),
                 E('h_can', 'csr_has_canonical_format', 1, replace=['csr_has_sorted_indices', 'csr_has_duplicates'], timeout=1800)],
                lang='c', route='P', forbid_auto=False,
                trusted=["std::vector<unsigned>::operator[] on an index below size() is the array access p_[i] (signature rewrite to pointers)"],
                assumptions=["array lengths <= K (stated per run)"])
    return [pred]

/* Route P: CSRMatrix::get (binary search in a canonical row) and the search region of CSRMatrix::set, bodies verbatim
   (get.inc / setsearch.inc generated on every run: the member function becomes a C function whose parameters carry the
   data members it reads — p_, j_, x_, row_, col_ — nothing in the body changes; loop contracts injected after the pinned
   loop headers).  RCP<const Basic> is an opaque value id; `zero` is the id of the constant zero.
   Unbounded in the row length (inductive invariant); array lengths capped at K by the precondition. */
#include <stddef.h>
#include <stdbool.h>
#include <iso646.h>
#ifndef K
#define K 16u
#endif
typedef unsigned RCPBasic;
RCPBasic zero;
#define SYMENGINE_ASSERT(c) __CPROVER_assert((c), "SYMENGINE_ASSERT " #c);
unsigned g_q, g_nnz;              /* ghost: an arbitrary-but-fixed position; the length of j_ / x_ */
#define IN_ROW_I(q) (p_[i] <= (q) && (q) < p_[i + 1])
#define ROW_PRE __CPROVER_requires(row_ < K && g_nnz < K && g_q < K && i < row_ && j < col_) \
  __CPROVER_requires(__CPROVER_is_fresh(p_, (row_ + 1) * sizeof(unsigned))) \
  __CPROVER_requires(__CPROVER_is_fresh(j_, (g_nnz + 1) * sizeof(unsigned))) \
  __CPROVER_requires(p_[i] <= p_[i + 1] && p_[i + 1] <= g_nnz) \
  /* canonical row: column indices strictly increasing */ \
  __CPROVER_requires(__CPROVER_forall { unsigned a; (a < K) ==> __CPROVER_forall { unsigned b; (b < K) ==> ((IN_ROW_I(a) && IN_ROW_I(b) && a < b) ==> j_[a] < j_[b]) } })

#define CONTRACT_get ROW_PRE \
  __CPROVER_requires(__CPROVER_is_fresh(x_, (g_nnz + 1) * sizeof(RCPBasic))) \
  /* found: the value stored at the (unique) position holding column j */ \
  __CPROVER_ensures((IN_ROW_I(g_q) && j_[g_q] == j) ==> __CPROVER_return_value == x_[g_q]) \
  /* otherwise zero: the result is zero, or it is the stored value of column j */ \
  __CPROVER_ensures(__CPROVER_return_value == zero || __CPROVER_exists { unsigned q; q < K && IN_ROW_I(q) && j_[q] == j && x_[q] == __CPROVER_return_value }) \
  __CPROVER_assigns()
#define INV_get __CPROVER_assigns(row_start, row_end, k) \
  __CPROVER_loop_invariant(p_[i] <= row_start && row_start <= row_end && row_end <= p_[i + 1]) \
  __CPROVER_loop_invariant((IN_ROW_I(g_q) && j_[g_q] == j) ==> (row_start <= g_q && g_q < row_end)) \
  __CPROVER_decreases(row_end - row_start)

#include "get.inc"

/* search region of CSRMatrix::set (first statement .. end of the while loop), wrapped as a function returning k.
   Postcondition: k is the insertion point of column j in row i — everything before it is smaller, everything from it on is >= j. */
#define CONTRACT_setsearch ROW_PRE \
  __CPROVER_ensures(p_[i] <= __CPROVER_return_value && __CPROVER_return_value <= p_[i + 1]) \
  __CPROVER_ensures((IN_ROW_I(g_q) && g_q < __CPROVER_return_value) ==> j_[g_q] < j) \
  __CPROVER_ensures((IN_ROW_I(g_q) && g_q >= __CPROVER_return_value) ==> j_[g_q] >= j) \
  __CPROVER_assigns()
#define INV_setsearch __CPROVER_assigns(k, end, mid) \
  __CPROVER_loop_invariant(p_[i] <= k && k <= end && end <= p_[i + 1]) \
  __CPROVER_loop_invariant((IN_ROW_I(g_q) && g_q < k) ==> j_[g_q] < j) \
  __CPROVER_loop_invariant((IN_ROW_I(g_q) && g_q >= end) ==> j_[g_q] >= j) \
  __CPROVER_decreases(end - k)
unsigned set_search(const unsigned *p_, const unsigned *j_, unsigned row_, unsigned col_, unsigned i, unsigned j)
CONTRACT_setsearch
{
#include "setsearch.inc"
  (void)row_end;
  return k;
}

void h_setsearch(void) { const unsigned *p, *jx; unsigned row, col, i, j; set_search(p, jx, row, col, i, j); __CPROVER_assert(0, "VACUITY.h_setsearch"); }
void h_get(void) { const unsigned *p, *jx; const RCPBasic *x; unsigned row, col, i, j; get(p, jx, x, row, col, i, j); __CPROVER_assert(0, "VACUITY.h_get"); }

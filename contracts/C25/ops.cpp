/* C25 route B: the CSR operations (real text in csr.inc) over GF(FP) entries, matrices NR x NC with at most
   NNZ stored entries.  Every operation is started from an ARBITRARY canonical matrix (= any history of earlier
   operations, since each one is shown to re-establish canonical form) and compared entry by entry with the same
   operation on the dense expansion; the dense view is read with an independent linear scan, not with get(). */
#include "csr_prelude.h"
FIELD_GLOBALS
#include "csr.inc"
/* the constructors' SYMENGINE_ASSERT(is_canonical()) as an obligation */
CSRMatrix::CSRMatrix(unsigned row, unsigned col, uvec &p, uvec &j, vec_basic &x)
{
  row_ = row; col_ = col; p_ = p; j_ = j; x_ = x;
  __CPROVER_assert(is_canonical(), "C25.CSRMatrix.ctor.result_is_canonical");
}
/* ASSUMED CONTRACT of csr_sort_indices (its body passes a lambda to std::sort, which the front end cannot parse):
   within every row the (j, x) pairs are permuted into non-decreasing column order; p_ unchanged.  Realised by an
   insertion sort. */
extern "C" void stub_sort_rows(unsigned *p, unsigned *j, RCPBasic *x, unsigned rows)
{
  for (unsigned r = 0; r < NR; r++) if (r < rows)
    for (unsigned a = 0; a < CAP; a++) for (unsigned b = 0; b + 1 < CAP; b++)
      if (b >= p[r] && b + 1 < p[r + 1] && j[b] > j[b + 1]) {
        unsigned t = j[b]; j[b] = j[b + 1]; j[b + 1] = t;
        fe_t tv = x[b].b.v; x[b].b.v = x[b + 1].b.v; x[b + 1].b.v = tv; bool tn = x[b].nn; x[b].nn = x[b + 1].nn; x[b + 1].nn = tn;
      }
}
void CSRMatrix::csr_sort_indices(uvec &p_, uvec &j_, vec_basic &x_, unsigned row_) { stub_sort_rows(p_.d, j_.d, x_.d, row_); }

/* ---- harness helpers ---- */
static fe_t dense_at(const CSRMatrix &M, unsigned i, unsigned j)        /* independent oracle: sum of the stored entries (i, j) */
{
  fe_t s = 0;
  for (unsigned k = 0; k < CAP; k++) if (k >= M.p_.d[i] && k < M.p_.d[i + 1] && k < M.j_.n && M.j_.d[k] == j) s = T_ADD[s][FVAL(M.x_.d[k])];
  return s;
}
static void any_csr(CSRMatrix &M, unsigned rows, unsigned cols, bool nonzero_entries)     /* well-formed: p monotone, indices < cols */
{
  M.row_ = rows; M.col_ = cols; M.p_.n = rows + 1;
  unsigned nnz = nondet_uint(); __CPROVER_assume(nnz <= NNZ);
  M.j_.n = nnz; M.x_.n = nnz;
  for (unsigned k = 0; k < NR + 1; k++) { M.p_.d[k] = nondet_uint(); __CPROVER_assume(M.p_.d[k] <= nnz); }
  __CPROVER_assume(M.p_.d[0] == 0 && M.p_.d[rows] == nnz);
  for (unsigned k = 0; k < NR; k++) if (k < rows) __CPROVER_assume(M.p_.d[k] <= M.p_.d[k + 1]);
  for (unsigned k = 0; k < CAP; k++) {
    M.j_.d[k] = nondet_uint(); __CPROVER_assume(M.j_.d[k] < cols);
    fe_t v = nondet_fe(); if (nonzero_entries) __CPROVER_assume(v != 0);
    M.x_.d[k] = mkr(v);
  }
}
static void any_canonical(CSRMatrix &M, unsigned rows, unsigned cols) { any_csr(M, rows, cols, true); __CPROVER_assume(M.is_canonical()); }
#define FORALL_RC(i, j) for (unsigned i = 0; i < NR; i++) for (unsigned j = 0; j < NC; j++)

extern "C" void h_get(void)
{
  field_init(); CSRMatrix M; any_canonical(M, NR, NC);
  unsigned i = nondet_uint(), j = nondet_uint(); __CPROVER_assume(i < NR && j < NC);
  RCPBasic r = M.get(i, j);
  OBL("C25.get.post.equals_dense_entry", r.nn && FVAL(r) == dense_at(M, i, j));
  REACHABLE("h_get");
}
extern "C" void h_set(void)
{
  field_init(); CSRMatrix M; any_canonical(M, NR, NC);
  fe_t D[NR][NC]; FORALL_RC(i, j) D[i][j] = dense_at(M, i, j);
  unsigned si = nondet_uint(), sj = nondet_uint(); fe_t sv = nondet_fe(); __CPROVER_assume(si < NR && sj < NC);
  __CPROVER_assume(M.j_.n < NNZ || sv == 0 || D[si][sj] != 0 || M.j_.n < CAP);
  M.set(si, sj, mkr(sv));
  OBL("C25.set.post.result_is_canonical", M.is_canonical());
  FORALL_RC(i, j) OBL("C25.set.post.dense_view_changed_at_i_j_only", dense_at(M, i, j) == ((i == si && j == sj) ? sv : D[i][j]));
  for (unsigned k = 0; k < CAP; k++) if (k < M.x_.n) OBL("C25.set.post.no_stored_zero", FVAL(M.x_.d[k]) != 0);
  REACHABLE("h_set");
}
extern "C" void h_set_twice(void)      /* two updates in a row: the second starts from the state the first produced */
{
  field_init(); CSRMatrix M; any_canonical(M, NR, NC);
  fe_t D[NR][NC]; FORALL_RC(i, j) D[i][j] = dense_at(M, i, j);
  for (unsigned t = 0; t < 2; t++) {
    unsigned si = nondet_uint(), sj = nondet_uint(); fe_t sv = nondet_fe(); __CPROVER_assume(si < NR && sj < NC);
    M.set(si, sj, mkr(sv)); D[si][sj] = sv;
  }
  OBL("C25.set.sequence.result_is_canonical", M.is_canonical());
  FORALL_RC(i, j) OBL("C25.set.sequence.dense_view_follows_the_updates", dense_at(M, i, j) == D[i][j]);
  REACHABLE("h_set_twice");
}
extern "C" void h_sum_duplicates(void)
{
  field_init(); CSRMatrix M; any_csr(M, NR, NC, false);
  __CPROVER_assume(CSRMatrix::csr_has_sorted_indices(M.p_, M.j_, NR));      /* requires: rows sorted (duplicates allowed) */
  fe_t D[NR][NC]; FORALL_RC(i, j) D[i][j] = dense_at(M, i, j);
  CSRMatrix::csr_sum_duplicates(M.p_, M.j_, M.x_, NR);
  OBL("C25.csr_sum_duplicates.post.result_is_canonical", M.is_canonical());
  FORALL_RC(i, j) OBL("C25.csr_sum_duplicates.post.dense_view_is_the_sum_of_duplicates", dense_at(M, i, j) == D[i][j]);
  REACHABLE("h_sum_duplicates");
}
extern "C" void h_from_coo(void)
{
  field_init();
  unsigned nnz = nondet_uint(); __CPROVER_assume(nnz <= NNZ);
  uvec ci(nnz), cj(nnz); vec_basic cx(nnz);
  fe_t D[NR][NC]; FORALL_RC(i, j) D[i][j] = 0;
  for (unsigned k = 0; k < NNZ; k++) if (k < nnz) {
    unsigned a = nondet_uint(), b = nondet_uint(); fe_t v = nondet_fe(); __CPROVER_assume(a < NR && b < NC);
    ci.d[k] = a; cj.d[k] = b; cx.d[k] = mkr(v);
    FORALL_RC(i, j) if (i == a && j == b) D[i][j] = T_ADD[D[i][j]][v];
  }
  CSRMatrix M = CSRMatrix::from_coo(NR, NC, ci, cj, cx);
  OBL("C25.from_coo.post.result_is_canonical", M.is_canonical());
  FORALL_RC(i, j) OBL("C25.from_coo.post.dense_view_is_the_sum_of_the_coordinate_list", dense_at(M, i, j) == D[i][j]);
  REACHABLE("h_from_coo");
}
extern "C" void h_transpose(void)
{
  field_init(); CSRMatrix M; any_canonical(M, NR, NC);
  CSRMatrix T = M.transpose(false);
  OBL("C25.transpose.post.shape", T.row_ == NC && T.col_ == NR);
  OBL("C25.transpose.post.result_is_canonical", T.is_canonical());
  for (unsigned i = 0; i < NR; i++) for (unsigned j = 0; j < NC; j++) {
    fe_t s = 0;       /* dense_at on the transposed shape */
    for (unsigned k = 0; k < CAP; k++) if (k >= T.p_.d[j] && k < T.p_.d[j + 1] && k < T.j_.n && T.j_.d[k] == i) s = T_ADD[s][FVAL(T.x_.d[k])];
    OBL("C25.transpose.post.entry_j_i_equals_entry_i_j", s == dense_at(M, i, j));
  }
  REACHABLE("h_transpose");
}
#ifndef NK2
#define NK2 NC
#endif
/* C = A * B by the two-pass product (scipy protocol): pass 1 computes the row pointers of C, the caller sizes j_ / x_ to
   C.p_[rows], pass 2 fills them.  A is NR x NC, B is NC x NK2 (NK2 may exceed NC).  The rows of C come out unsorted by
   design, so the obligation is agreement with the dense product and consistency of the row pointers, not canonical form. */
extern "C" void h_matmat(void)
{
  field_init(); CSRMatrix A, B, C; any_canonical(A, NR, NC); any_canonical(B, NC, NK2);
  __CPROVER_assume(A.j_.n <= 2 && B.j_.n <= 3);
  C.row_ = NR; C.col_ = NK2; C.p_ = uvec(NR + 1, 0);
  verif_may_throw = false;
  csr_matmat_pass1(A, B, C);
  unsigned nnz = C.p_.d[NR];
  OBL("C25.csr_matmat_pass1.post.row_pointers_monotone", C.p_.d[0] == 0 && C.p_.d[0] <= C.p_.d[1] && C.p_.d[1] <= C.p_.d[NR]);
  __CPROVER_assume(nnz <= CAP);
  C.j_ = uvec(nnz); C.x_ = vec_basic(nnz);
  csr_matmat_pass2(A, B, C);
  OBL("C25.csr_matmat_pass2.post.fills_at_most_the_reserved_entries", C.p_.d[NR] <= nnz);
  for (unsigned i = 0; i < NR; i++) for (unsigned k = 0; k < NK2; k++) {
    fe_t want = 0;
    for (unsigned m = 0; m < NC; m++) want = T_ADD[want][T_MUL[dense_at(A, i, m)][dense_at(B, m, k)]];
    fe_t got = 0;
    for (unsigned q = 0; q < CAP; q++) if (q >= C.p_.d[i] && q < C.p_.d[i + 1] && q < C.j_.n && C.j_.d[q] == k) got = T_ADD[got][FVAL(C.x_.d[q])];
    OBL("C25.csr_matmat.post.equals_the_dense_product", got == want);
  }
  REACHABLE("h_matmat");
}
extern "C" void h_conjugate(void)
{
  field_init(); CSRMatrix M, Cj; any_canonical(M, NR, NC);
  verif_may_throw = false;
  M.conjugate(Cj);
  OBL("C25.conjugate.post.same_shape", Cj.row_ == NR && Cj.col_ == NC);
  OBL("C25.conjugate.post.result_is_canonical", Cj.is_canonical());
  if (Cj.row_ == NR && Cj.col_ == NC && Cj.p_.n == NR + 1) FORALL_RC(i, j) OBL("C25.conjugate.post.entries_are_the_conjugates", dense_at(Cj, i, j) == dense_at(M, i, j));      /* real entries: conjugate = identity */
  REACHABLE("h_conjugate");
}
extern "C" void h_diagonal(void)
{
  field_init(); CSRMatrix M; any_canonical(M, NR, NC);
  unsigned N = NR < NC ? NR : NC;
  DenseMatrix D(N, 1);
  csr_diagonal(M, D);
  for (unsigned i = 0; i < NR && i < NC; i++) OBL("C25.csr_diagonal.post.entry_i_is_the_dense_diagonal_entry", D.m_.d[i].nn && FVAL(D.m_.d[i]) == dense_at(M, i, i));
  REACHABLE("h_diagonal");
}
extern "C" void h_scale(void)
{
  field_init(); CSRMatrix M; any_canonical(M, NR, NC);
  fe_t D[NR][NC]; FORALL_RC(i, j) D[i][j] = dense_at(M, i, j);
  bool rows = nondet_boolean();
  DenseMatrix X(rows ? NR : NC, 1); fe_t s[NR > NC ? NR : NC]; bool anyzero = false;
  for (unsigned k = 0; k < (NR > NC ? NR : NC); k++) { s[k] = nondet_fe(); if (k < X.row_) { X.m_.d[k] = mkr(s[k]); if (s[k] == 0) anyzero = true; } }
  verif_may_throw = anyzero;                    /* "Scaling factor can't be zero" */
  if (rows) csr_scale_rows(M, X); else csr_scale_columns(M, X);
  OBL("C25.csr_scale.post.result_is_canonical", M.is_canonical());
  FORALL_RC(i, j) OBL("C25.csr_scale.post.entries_scaled", dense_at(M, i, j) == T_MUL[D[i][j]][s[rows ? i : j]]);
  REACHABLE("h_scale");
}
static RCPBasic f_add(const RCPBasic &a, const RCPBasic &b) { return add(a, b); }
static RCPBasic f_sub(const RCPBasic &a, const RCPBasic &b) { return sub(a, b); }
static RCPBasic f_mul(const RCPBasic &a, const RCPBasic &b) { return mul(a, b); }
extern "C" void h_binop(void)
{
  field_init(); CSRMatrix A, B, C; any_canonical(A, NR, NC); any_canonical(B, NR, NC);
  C.row_ = NR; C.col_ = NC; C.p_ = uvec(NR + 1, 0);
  int op = nondet_int(); __CPROVER_assume(op >= 0 && op <= 2);
  __CPROVER_assume(A.j_.n + B.j_.n <= CAP);
  csr_binop_csr_canonical(A, B, C, op == 0 ? f_add : (op == 1 ? f_sub : f_mul));
  OBL("C25.csr_binop.post.result_is_canonical", C.is_canonical());
  FORALL_RC(i, j) {
    fe_t a = dense_at(A, i, j), b = dense_at(B, i, j);
    OBL("C25.csr_binop.post.entrywise_result", dense_at(C, i, j) == (op == 0 ? T_ADD[a][b] : (op == 1 ? T_SUB[a][b] : T_MUL[a][b])));
  }
  for (unsigned k = 0; k < CAP; k++) if (k < C.x_.n) OBL("C25.csr_binop.post.no_stored_zero", FVAL(C.x_.d[k]) != 0);
  REACHABLE("h_binop");
}

/* Route P: the three CSR canonical-form predicates of symengine/sparse_matrix.cpp, bodies verbatim
   (pred.inc is generated on every run: signature rewritten to C, loop contracts injected after the
   pinned loop headers).  Contracts are the macros below; ghost indices replace quantifiers in the
   soundness direction, K-bounded quantifiers state the array precondition and the witnesses. */
#include <stddef.h>
#include <stdbool.h>
#include <iso646.h>
#ifndef K
#define K 16u
#endif
unsigned g_r, g_q, g_k, g_nnz;   /* ghost: arbitrary-but-fixed row / position / row-pointer index; g_nnz = length of j_ */
#define IN_ROW(r,q) ((r) < row_ && p_[(r)] <= (q) && (q) + 1 < p_[(r) + 1])

#define ARR_PRE __CPROVER_requires(row_ < K && g_nnz < K && g_r < K && g_q < K && g_k < K) \
  __CPROVER_requires(__CPROVER_is_fresh(p_, (row_ + 1) * sizeof(unsigned))) \
  __CPROVER_requires(__CPROVER_is_fresh(j_, (g_nnz + 1) * sizeof(unsigned)))
#define P_BOUNDED __CPROVER_forall { unsigned k; (k < K) ==> ((k <= row_) ==> p_[k] <= g_nnz) }

#define CONTRACT_csr_has_duplicates \
  ARR_PRE __CPROVER_requires(P_BOUNDED) \
  __CPROVER_ensures(!__CPROVER_return_value ==> (IN_ROW(g_r, g_q) ==> j_[g_q] != j_[g_q + 1])) \
  __CPROVER_ensures(__CPROVER_return_value ==> __CPROVER_exists { unsigned r; r < K && __CPROVER_exists { unsigned q; q < K && IN_ROW(r, q) && j_[q] == j_[q + 1] } }) \
  __CPROVER_assigns()
#define CONTRACT_csr_has_sorted_indices \
  ARR_PRE __CPROVER_requires(P_BOUNDED) \
  __CPROVER_ensures(__CPROVER_return_value ==> (IN_ROW(g_r, g_q) ==> j_[g_q] <= j_[g_q + 1])) \
  __CPROVER_ensures(!__CPROVER_return_value ==> __CPROVER_exists { unsigned r; r < K && __CPROVER_exists { unsigned q; q < K && IN_ROW(r, q) && j_[q] > j_[q + 1] } }) \
  __CPROVER_assigns()
/* CSRMatrix::is_canonical establishes j_.size() == p_[row_] before the call; "all p_[k] <= nnz"
   (the callee precondition) is discharged at the two call sites from the monotonicity loop invariant */
#define CONTRACT_csr_has_canonical_format \
  ARR_PRE __CPROVER_requires(p_[row_] == g_nnz) \
  __CPROVER_ensures(__CPROVER_return_value ==> ((g_k < row_ ==> p_[g_k] <= p_[g_k + 1]) && (IN_ROW(g_r, g_q) ==> j_[g_q] < j_[g_q + 1]))) \
  __CPROVER_ensures(!__CPROVER_return_value ==> (__CPROVER_exists { unsigned k; k < K && k < row_ && p_[k] > p_[k + 1] } || __CPROVER_exists { unsigned r; r < K && __CPROVER_exists { unsigned q; q < K && IN_ROW(r, q) && j_[q] >= j_[q + 1] } })) \
  __CPROVER_assigns()

#define INV_dup_outer __CPROVER_assigns(i) __CPROVER_loop_invariant(i <= row_) \
  __CPROVER_loop_invariant((g_r < i && IN_ROW(g_r, g_q)) ==> j_[g_q] != j_[g_q + 1]) __CPROVER_decreases(row_ - i)
#define INV_dup_inner __CPROVER_assigns(j) __CPROVER_loop_invariant(p_[i] <= j && j <= g_nnz) \
  __CPROVER_loop_invariant((g_r == i && IN_ROW(g_r, g_q) && g_q < j) ==> j_[g_q] != j_[g_q + 1]) __CPROVER_decreases(g_nnz - j)
#define INV_srt_outer __CPROVER_assigns(i) __CPROVER_loop_invariant(i <= row_) \
  __CPROVER_loop_invariant((g_r < i && IN_ROW(g_r, g_q)) ==> j_[g_q] <= j_[g_q + 1]) __CPROVER_decreases(row_ - i)
#define INV_srt_inner __CPROVER_assigns(jj) __CPROVER_loop_invariant(p_[i] <= jj && jj <= g_nnz) \
  __CPROVER_loop_invariant((g_r == i && IN_ROW(g_r, g_q) && g_q < jj) ==> j_[g_q] <= j_[g_q + 1]) __CPROVER_decreases(g_nnz - jj)
#define INV_can_mono __CPROVER_assigns(i) __CPROVER_loop_invariant(i <= row_) \
  __CPROVER_loop_invariant(__CPROVER_forall { unsigned k; (k < K) ==> ((k < i) ==> p_[k] <= p_[k + 1]) }) __CPROVER_decreases(row_ - i)

#include "pred.inc"

void h_dup(void) { const unsigned *p, *j; unsigned row; csr_has_duplicates(p, j, row); __CPROVER_assert(0, "VACUITY.h_dup"); }
void h_srt(void) { const unsigned *p, *j; unsigned row; csr_has_sorted_indices(p, j, row); __CPROVER_assert(0, "VACUITY.h_srt"); }
void h_can(void) { const unsigned *p, *j; unsigned row; csr_has_canonical_format(p, j, row); __CPROVER_assert(0, "VACUITY.h_can"); }

/* CSR prelude: std::vector<unsigned> as a fixed-capacity vector with position iterators and bound-asserting
   accessors; CSRMatrix / DenseMatrix skeletons with the data members of symengine/matrix.h.  x_ is the field
   vec_basic of prelude/field.h.  TRUSTED: standard semantics of vector(n, v), operator[], insert, erase, resize,
   clear, push_back, size; std::swap; std::partial_sum; std::min. */
#ifndef VERIF_CSR_PRELUDE_H
#define VERIF_CSR_PRELUDE_H
#include "field.h"
#ifndef UCAP
#define UCAP CAP
#endif
extern "C" void uv_shift_up(unsigned *d, unsigned n, unsigned k) { for (unsigned i = UCAP - 1; i > 0; i--) if (i > k && i <= n) d[i] = d[i - 1]; }
extern "C" void uv_shift_down(unsigned *d, unsigned n, unsigned k) { for (unsigned i = 0; i + 1 < UCAP; i++) if (i >= k && i + 1 < n) d[i] = d[i + 1]; }
extern "C" void uv_fill(unsigned *d, unsigned from, unsigned to, unsigned v) { for (unsigned i = 0; i < UCAP; i++) if (i >= from && i < to) d[i] = v; }
#define UV_COPY1(k) d[k] = o.d[k];
#if UCAP == 16
#define UV_COPY UV_COPY1(0) UV_COPY1(1) UV_COPY1(2) UV_COPY1(3) UV_COPY1(4) UV_COPY1(5) UV_COPY1(6) UV_COPY1(7) UV_COPY1(8) UV_COPY1(9) UV_COPY1(10) UV_COPY1(11) UV_COPY1(12) UV_COPY1(13) UV_COPY1(14) UV_COPY1(15)
#elif UCAP == 9
#define UV_COPY UV_COPY1(0) UV_COPY1(1) UV_COPY1(2) UV_COPY1(3) UV_COPY1(4) UV_COPY1(5) UV_COPY1(6) UV_COPY1(7) UV_COPY1(8)
#else
#error "UCAP must be 9 or 16"
#endif
struct uvec {
  unsigned d[UCAP]; unsigned n;
  uvec() { n = 0; }
  uvec(const uvec &o) { n = o.n; UV_COPY }
  uvec &operator=(const uvec &o) { n = o.n; UV_COPY return *this; }
  uvec(unsigned k) { __CPROVER_assert(k <= UCAP, "stub capacity (vector)"); n = k; uv_fill(d, 0, k, 0); }
  uvec(unsigned k, unsigned v) { __CPROVER_assert(k <= UCAP, "stub capacity (vector)"); n = k; uv_fill(d, 0, k, v); }
  unsigned size() const { return n; }
  unsigned &operator[](unsigned i) { __CPROVER_assert(i < n, "vector index in bounds"); return d[i < UCAP ? i : 0]; }
  unsigned operator[](unsigned i) const { __CPROVER_assert(i < n, "vector index in bounds"); return d[i < UCAP ? i : 0]; }
  unsigned begin() const { return 0; }
  unsigned end() const { return n; }
  void insert(unsigned pos, unsigned v) { __CPROVER_assert(pos <= n, "vector insert position in range"); __CPROVER_assert(n < UCAP, "stub capacity (vector)"); if (pos <= n && n < UCAP) { uv_shift_up(d, n, pos); d[pos] = v; n = n + 1; } }
  void erase(unsigned pos) { __CPROVER_assert(pos < n, "vector erase position in range"); if (pos < n) { uv_shift_down(d, n, pos); n = n - 1; } }
  void resize(unsigned k) { __CPROVER_assert(k <= UCAP, "stub capacity (vector)"); if (k > n) uv_fill(d, n, k, 0); n = k; }
  bool empty() const { return n == 0; }
  unsigned &front() { __CPROVER_assert(n > 0, "front() on a non-empty vector"); return d[0]; }
  unsigned &back() { __CPROVER_assert(n > 0, "back() on a non-empty vector"); return d[n > 0 && n <= UCAP ? n - 1 : 0]; }
  unsigned &at(unsigned i) { __CPROVER_assert(i < n, "vector index in bounds"); return d[i < UCAP ? i : 0]; }
  void pop_back() { __CPROVER_assert(n > 0, "pop_back() on a non-empty vector"); if (n > 0) n = n - 1; }
  void clear() { n = 0; }
  void push_back(unsigned v) { __CPROVER_assert(n < UCAP, "stub capacity (vector)"); if (n < UCAP) { d[n] = v; n = n + 1; } }
};
struct ivec {            /* std::vector<int> */
  int d[UCAP]; unsigned n;
  ivec(unsigned k, int v) { __CPROVER_assert(k <= UCAP, "stub capacity (vector)"); n = k; for (unsigned i = 0; i < UCAP; i++) d[i] = v; }
  unsigned size() const { return n; }
  int &operator[](unsigned i) { __CPROVER_assert(i < n, "vector index in bounds"); return d[i < UCAP ? i : 0]; }
};
template <class T> T &std_move(T &t) { return t; }
inline unsigned numeric_cast_unsigned(unsigned x) { return x; }
extern "C" void stub_partial_sum(unsigned *d, unsigned n) { unsigned acc = 0; for (unsigned i = 0; i < UCAP; i++) if (i < n) { acc = acc + d[i]; d[i] = acc; } }
inline void partial_sum_inplace(uvec &v) { stub_partial_sum(v.d, v.n); }      /* std::partial_sum(v.begin(), v.end(), v.begin()) */
namespace std { inline unsigned min(unsigned a, unsigned b) { return a < b ? a : b; } inline unsigned max(unsigned a, unsigned b) { return a < b ? b : a; } }
class DenseMatrix {
public:
  vec_basic m_; unsigned row_, col_;
  DenseMatrix() { row_ = 0; col_ = 0; }
  DenseMatrix(unsigned r, unsigned c) { row_ = r; col_ = c; m_.n = r * c; }
  DenseMatrix(const DenseMatrix &o) { m_ = o.m_; row_ = o.row_; col_ = o.col_; }
  DenseMatrix &operator=(const DenseMatrix &o) { m_ = o.m_; row_ = o.row_; col_ = o.col_; return *this; }
  unsigned nrows() const { return row_; }
  unsigned ncols() const { return col_; }
  RCPBasic get(unsigned i, unsigned j) const { __CPROVER_assert(i < row_ && j < col_, "SYMENGINE_ASSERT i < row_ and j < col_ (DenseMatrix::get)"); return m_[i * col_ + j]; }
  void set(unsigned i, unsigned j, const RCPBasic &e) { __CPROVER_assert(i < row_ && j < col_, "SYMENGINE_ASSERT i < row_ and j < col_ (DenseMatrix::set)"); m_[i * col_ + j] = e; }
};
struct SymEngineException {}; struct NotImplementedError {};
class CSRMatrix {
public:
  uvec p_, j_; vec_basic x_; unsigned row_, col_;
  CSRMatrix() { row_ = 0; col_ = 0; }
  CSRMatrix(unsigned row, unsigned col, uvec &p, uvec &j, vec_basic &x);
  CSRMatrix(const CSRMatrix &o) { p_ = o.p_; j_ = o.j_; x_ = o.x_; row_ = o.row_; col_ = o.col_; }
  CSRMatrix &operator=(const CSRMatrix &o) { p_ = o.p_; j_ = o.j_; x_ = o.x_; row_ = o.row_; col_ = o.col_; return *this; }
  unsigned nrows() const { return row_; }
  unsigned ncols() const { return col_; }
  bool is_canonical() const;
  RCPBasic get(unsigned i, unsigned j) const;
  void set(unsigned i, unsigned j, const RCPBasic &e);
  CSRMatrix transpose(bool conjugate = false) const;
  void conjugate(CSRMatrix &result) const;
  static void csr_sum_duplicates(uvec &p_, uvec &j_, vec_basic &x_, unsigned row_);
  static void csr_sort_indices(uvec &p_, uvec &j_, vec_basic &x_, unsigned row_);
  static bool csr_has_sorted_indices(const uvec &p_, const uvec &j_, unsigned row_);
  static bool csr_has_duplicates(const uvec &p_, const uvec &j_, unsigned row_);
  static bool csr_has_canonical_format(const uvec &p_, const uvec &j_, unsigned row_);
  static CSRMatrix from_coo(unsigned row, unsigned col, const uvec &i, const uvec &j, const vec_basic &x);
};
#endif

/* C05: the normalisation glue of Integer / Rational / Complex (real text in glue.inc and *_inline.inc)
   over the assumed GMP contracts of prelude/exactnum.h.  Route F with -DEXACT_ABSTRACT (structure, full
   64-bit domain), route B otherwise (exact values, small operands). */
#include "exactnum.h"
int verif_thrown; bool verif_may_throw;
struct SymEngineException {}; struct NotImplementedError {};
enum NK { NK_INTEGER = 0, NK_RATIONAL = 1, NK_COMPLEX = 2, NK_NAN = 3, NK_ZOO = 4, NK_NONE = 5 };
struct Integer; struct Rational; struct Complex;
struct Number { int kind; Integer *in; Rational *ra; Complex *co; bool is_zero() const; bool is_negative() const;
  /* ghost record of a product built by mulnum (used by the powcomp contract): factors */
  Number *mul_lhs, *mul_rhs;
  Number *pow(const Integer &e) const;  Number *div(const Number &o) const;
  /* the else-branch of a dispatcher forwards to other.op(*this) / other.rop(*this): recorded (the class of 'other' is outside this unit) */
  Number *add(const Integer &o) const; Number *rsub(const Integer &o) const; Number *mul(const Integer &o) const; Number *rdiv(const Integer &o) const; Number *rpow(const Integer &o) const;
  Number *add(const Complex &o) const; Number *rsub(const Complex &o) const; Number *mul(const Complex &o) const; Number *rdiv(const Complex &o) const;
  Number *add(const Rational &o) const; Number *rsub(const Rational &o) const; Number *mul(const Rational &o) const; Number *rdiv(const Rational &o) const; Number *rpow(const Rational &o) const; };
typedef Number *RCPNumber;
struct Integer {
  integer_class i; Number *num_;
  integer_class as_integer_class() const { return i; }
  long as_int() const { return i; }
  bool is_positive() const { return i > 0; }
  bool is_zero() const { return i == 0; }
  bool is_negative() const { return i < 0; }
  RCPNumber divint(const Integer &other) const;
  RCPNumber pow_negint(const Integer &other) const;
#include "integer_inline.inc"
#include "integer_dispatch.inc"
};
struct Rational {
  rational_class i; Number *num_;
  rational_class as_rational_class() const { return i; }     /* by value: returning const T& from a const member is mis-typed by the front end */
  bool is_zero() const { return i.num == 0; }                 /* Rational::is_zero (real text proved in unit sign_predicates) */
  bool is_canonical(const rational_class &i) const;
  static RCPNumber from_mpq(const rational_class &i);
  static RCPNumber from_mpq_rv(rational_class &i);
  static RCPNumber from_two_ints(const Integer &n, const Integer &d);
  static RCPNumber from_two_ints(long n, long d);
#include "rational_inline.inc"
#include "rational_dispatch.inc"
};
struct Complex {
  rational_class real_, imaginary_; Number *num_;
  bool is_canonical(const rational_class &real, const rational_class &imaginary) const;
  static RCPNumber from_mpq(const rational_class re, const rational_class im);
  static RCPNumber from_two_rats(const Rational &re, const Rational &im);
  static RCPNumber from_two_nums(const Number &re, const Number &im);
  bool is_re_zero() const { return real_.num == 0; }         /* ComplexBase::is_re_zero: real_part()->is_zero() */
  RCPNumber powcomp(const Integer &other) const;
#include "complex_inline.inc"
};
inline bool Number::is_zero() const { return kind == NK_INTEGER && in->i == 0; }
inline bool Number::is_negative() const { return kind == NK_INTEGER ? in->i < 0 : (kind == NK_RATIONAL && ra->i.num < 0); }
inline bool is_a_Integer(const Number &x) { return x.kind == NK_INTEGER; }
inline bool is_a_Rational(const Number &x) { return x.kind == NK_RATIONAL; }
inline const Integer &as_Integer(const Number &x) { return *x.in; }
inline const Rational &as_Rational(const Number &x) { return *x.ra; }

/* result objects: separately named slots (see prelude/ghostnum.h for why not an array), region reset by the harness */
#define SLOTS(X) X(0) X(1) X(2) X(3) X(4) X(5) X(6) X(7)
#define SDEF(k) Number sn##k; Integer si##k; Rational sr##k; Complex sc##k;
SLOTS(SDEF)
Number s_none; Integer s_noint; Rational s_norat; Complex s_nocplx;
unsigned slot_n;
static Number *fresh()
{
  Number *r;
  switch (slot_n) {
#define SCASE(k) case k: r = &sn##k; r->in = &si##k; r->ra = &sr##k; r->co = &sc##k; break;
    SLOTS(SCASE)
    default: __CPROVER_assert(false, "stub slot capacity"); r = &s_none; break;
  }
  slot_n = slot_n + 1; r->kind = NK_NONE; r->in->num_ = r; r->ra->num_ = r; r->co->num_ = r;
  return r;
}
Number nan_obj, zoo_obj, one_obj; Integer one_int;
RCPNumber Nan, ComplexInf, one;
static void init()
{
  slot_n = 0; verif_thrown = 0;
  nan_obj.kind = NK_NAN; zoo_obj.kind = NK_ZOO; Nan = &nan_obj; ComplexInf = &zoo_obj;
  one_obj.kind = NK_INTEGER; one_obj.in = &one_int; one_int.i = 1; one_int.num_ = &one_obj; one = &one_obj;
  nan_obj.in = &s_noint; nan_obj.ra = &s_norat; nan_obj.co = &s_nocplx; zoo_obj.in = &s_noint; zoo_obj.ra = &s_norat; zoo_obj.co = &s_nocplx;
  one_obj.ra = &s_norat; one_obj.co = &s_nocplx;
}
inline RCPNumber integer(integer_class v) { Number *r = fresh(); r->kind = NK_INTEGER; r->in->i = v; return r; }
inline Integer *mk_Integer(integer_class v) { return integer(v)->in; }
static RCPNumber mk_Rational(rational_class &q)
{
  Number *r = fresh(); r->kind = NK_RATIONAL; r->ra->i = q;
  /* the Rational constructor's SYMENGINE_ASSERT(is_canonical(this->i)), by the real Rational::is_canonical */
  __CPROVER_assert(r->ra->is_canonical(r->ra->i), "C05.Rational.ctor.is_canonical");
  return r;
}
static RCPNumber mk_Complex(const rational_class &re, const rational_class &im)
{
  Number *r = fresh(); r->kind = NK_COMPLEX; r->co->real_ = re; r->co->imaginary_ = im;
  __CPROVER_assert(r->co->is_canonical(r->co->real_, r->co->imaginary_), "C05.Complex.ctor.is_canonical");
  return r;
}
/* ---- stubs for Complex::powcomp: assumed contracts of what it calls ---- */
Number I_obj, m1_obj, negI_obj, powres_obj, prod_obj, opaque_obj;
RCPNumber I, minus_one;
inline Number *Number::pow(const Integer &e) const { return &powres_obj; }       /* im->pow(other): some number P (Rational::powrat is under contract separately) */
inline Number *Number::div(const Number &o) const { return &opaque_obj; }
inline RCPNumber mulnum(RCPNumber a, RCPNumber b)
{
  if (a == I && b == minus_one) return &negI_obj;                                 /* I * (-1) */
  prod_obj.kind = NK_NONE; prod_obj.mul_lhs = a; prod_obj.mul_rhs = b; return &prod_obj;
}
/* ntheory.cpp mod_f = mp_fdiv_r: floored remainder, 0 <= r < d for d > 0 */
inline Integer *mod_f(const Integer &n, const Number &d)
{
  long dv = d.in->i; __CPROVER_assert(dv > 0, "stub mod_f: positive modulus");
  long r = n.i % dv; if (r < 0) r = r + dv;
  return mk_Integer(r);
}
inline RCPNumber pow_number(const Complex &x, unsigned long n) { return &opaque_obj; }
/* recorded forwarding of a dispatcher's else-branch */
int fwd_op; const Number *fwd_target; const Number *fwd_arg; Number fwd_obj;
enum { F_NONE = 0, F_ADD, F_RSUB, F_MUL, F_RDIV, F_RPOW };
#define FWDREC(code) fwd_op = code; fwd_target = this; fwd_arg = o.num_; fwd_obj.kind = NK_NONE; return &fwd_obj;
/* other.op(*this) with *this an Integer: virtual dispatch reaches the real Rational dispatcher when 'other' is a Rational, otherwise a class outside this unit (recorded) */
#define FWDI(name, code) inline Number *Number::name(const Integer &o) const { if (kind == NK_RATIONAL) return ra->name(*o.num_); FWDREC(code) }
#define FWDR(name, code) inline Number *Number::name(const Rational &o) const { FWDREC(code) }
#include "glue.inc"
FWDI(add, F_ADD) FWDI(rsub, F_RSUB) FWDI(mul, F_MUL) FWDI(rdiv, F_RDIV) FWDI(rpow, F_RPOW)
FWDR(add, F_ADD) FWDR(rsub, F_RSUB) FWDR(mul, F_MUL) FWDR(rdiv, F_RDIV) FWDR(rpow, F_RPOW)
#define FWDC(name, code) inline Number *Number::name(const Complex &o) const { FWDREC(code) }
FWDC(add, F_ADD) FWDC(rsub, F_RSUB) FWDC(mul, F_MUL) FWDC(rdiv, F_RDIV)
inline bool is_a_Complex(const Number &x) { return x.kind == NK_COMPLEX; }
inline const Complex &as_Complex(const Number &x) { return *x.co; }

extern "C" void mp_pow_ui(long &r, long b, unsigned long e)
{
#ifdef EXACT_ABSTRACT
  long x = nondet_long();
  __CPROVER_assume(x > -(1L << 62) && x < (1L << 62));      /* stands for a mathematical integer: abs/negation cannot wrap */
  __CPROVER_assume((x == 0) == (b == 0 && e != 0)); __CPROVER_assume(!(e == 0) || x == 1); __CPROVER_assume(!(b > 0) || x > 0);
  r = x;
#else
  __CPROVER_assert(e <= POW_MAX, "stub pow range");
  long x = 1;
  for (unsigned long k = 0; k < POW_MAX; k++) if (k < e) x = x * b;
  r = x;
#endif
}

/* ------------------------------------------------------------------------------------------ */
#ifdef EXACT_ABSTRACT
/* the machine word stands for a mathematical integer: keep |x| < 2^62 so that negation / abs in the
   stub cannot wrap (GMP integers do not overflow) */
#define RANGE(x, lo, hi) __CPROVER_assume((x) > -(1L << 62) && (x) < (1L << 62))
#else
#define RANGE(x, lo, hi) __CPROVER_assume((x) >= (lo) && (x) <= (hi))
#endif
extern "C" long ipow(long b, long e) { long x = 1; for (long k = 0; k < POW_MAX; k++) if (k < e) x = x * b; return x; }
static bool normalised(RCPNumber r)        /* the normal form C05 demands of every exact real result */
{
  if (r->kind == NK_INTEGER) return true;
  if (r->kind == NK_RATIONAL) return q_is_canonical(r->ra->i) && r->ra->i.den != 1;
  return false;
}
static long num_of(RCPNumber r) { return r->kind == NK_INTEGER ? r->in->i : r->ra->i.num; }
static long den_of(RCPNumber r) { return r->kind == NK_INTEGER ? 1 : r->ra->i.den; }
#ifdef EXACT_ABSTRACT
#define VALUE(name, r, n, d)
#else
#define VALUE(name, r, n, d) OBL(name, num_of(r) * (d) == (n) * den_of(r))
#endif
static void mk_canonical_nonint(Rational &x, long lo, long hi, long dhi)
{
  x.i.num = nondet_long(); x.i.den = nondet_long(); x.i.canon = true;
  RANGE(x.i.num, lo, hi); RANGE(x.i.den, 2, dhi);
  __CPROVER_assume(x.i.den >= 2 && x.i.num != 0);
#ifndef EXACT_ABSTRACT
  __CPROVER_assume(exact_gcd(x.i.num, x.i.den) == 1);
#endif
}

extern "C" void h_divint(void)
{
  init();
  long a = nondet_long(), b = nondet_long(); RANGE(a, -12, 12); RANGE(b, -12, 12);
  Integer A, B; A.i = a; B.i = b;
  bool reversed = nondet_boolean();
  verif_may_throw = false;
  RCPNumber r;
  if (!reversed) r = A.divint(B);
  else { Number Bn; Bn.kind = NK_INTEGER; Bn.in = &B; Bn.ra = &s_norat; Bn.co = &s_nocplx; r = A.rdiv(Bn); long t = a; a = b; b = t; }   /* rdiv: other / this */
  if (b == 0) OBL("C05.Integer.divint.post.division_by_zero_is_zoo_or_nan", r->kind == (a == 0 ? NK_NAN : NK_ZOO));
  else {
    OBL("C05.Integer.divint.post.normalised", normalised(r));
    VALUE("C05.Integer.divint.post.value", r, a, b);
  }
  REACHABLE("h_divint");
}
extern "C" void h_powint(void)
{
  init();
  long a = nondet_long(), e = nondet_long(); RANGE(a, -3, 3); RANGE(e, -POW_MAX, POW_MAX);
#ifndef EXACT_ABSTRACT
  __CPROVER_assume((a >= -2 && a <= 2) || (e >= -3 && e <= 3));      /* |a|^|e| <= 27: inside the gcd/quotient tables */
#endif
  Integer A, E; A.i = a; E.i = e;
  verif_may_throw = false;
  RCPNumber r = A.powint(E);
  if (a == 0 && e < 0) OBL("C05.Integer.powint.post.zero_to_negative_power_is_zoo", r->kind == NK_ZOO);
  else {
    OBL("C05.Integer.powint.post.normalised", normalised(r));
    OBL("C05.Integer.powint.post.nonnegative_exponent_gives_integer", !(e >= 0) || r->kind == NK_INTEGER);
#ifndef EXACT_ABSTRACT
    if (e >= 0) OBL("C05.Integer.powint.post.value", r->in->i == ipow(a, e));
    else OBL("C05.Integer.powint.post.value_negative_exponent", num_of(r) * ipow(a, -e) == den_of(r));
#endif
  }
  REACHABLE("h_powint");
}
extern "C" void h_from_two_ints(void)
{
  init();
  long n = nondet_long(), d = nondet_long(); RANGE(n, -12, 12); RANGE(d, -12, 12);
  verif_may_throw = false;
  RCPNumber r;
  if (nondet_boolean()) { Integer N, D; N.i = n; D.i = d; r = Rational::from_two_ints(N, D); }
  else r = Rational::from_two_ints(n, d);
  if (d == 0) OBL("C05.Rational.from_two_ints.post.division_by_zero_is_zoo_or_nan", r->kind == (n == 0 ? NK_NAN : NK_ZOO));
  else {
    OBL("C05.Rational.from_two_ints.post.normalised", normalised(r));
    VALUE("C05.Rational.from_two_ints.post.value", r, n, d);
  }
  REACHABLE("h_from_two_ints");
}
extern "C" void h_from_mpq(void)
{
  init();
  rational_class q; q.num = nondet_long(); q.den = nondet_long(); q.canon = true;
  RANGE(q.num, -12, 12); RANGE(q.den, 1, 12);
  __CPROVER_assume(q.den >= 1); __CPROVER_assume(q.num != 0 || q.den == 1);
#ifndef EXACT_ABSTRACT
  __CPROVER_assume(exact_gcd(q.num, q.den) == 1);          /* requires: q canonical */
#endif
  long n0 = q.num, d0 = q.den;
  verif_may_throw = false;
  RCPNumber r = nondet_boolean() ? Rational::from_mpq(q) : Rational::from_mpq_rv(q);
  OBL("C05.Rational.from_mpq.post.integer_iff_denominator_one", (r->kind == NK_INTEGER) == (d0 == 1) && (r->kind == NK_INTEGER || r->kind == NK_RATIONAL));
  OBL("C05.Rational.from_mpq.post.value_preserved", num_of(r) == n0 && den_of(r) == d0);
  REACHABLE("h_from_mpq");
}
extern "C" void h_rat_ops(void)
{
  init();
  Rational X; mk_canonical_nonint(X, -4, 4, 4);
  bool with_int = nondet_boolean();
  Rational Y; mk_canonical_nonint(Y, -4, 4, 4);
  Integer K; K.i = nondet_long(); RANGE(K.i, -4, 4);
  long yn = with_int ? K.i : Y.i.num, yd = with_int ? 1 : Y.i.den;
  int op = nondet_int(); __CPROVER_assume(op >= 0 && op <= 5);
  verif_may_throw = false;
  RCPNumber r; long en = 0, ed = 1; bool divzero = false;
  Number Kn; Kn.kind = NK_INTEGER; Kn.in = &K; Kn.ra = &s_norat; Kn.co = &s_nocplx; K.num_ = &Kn;
#ifdef EXACT_ABSTRACT
#define EXPECT(n, d)
#else
#define EXPECT(n, d) en = (n); ed = (d)
#endif
  switch (op) {
    case 0: r = with_int ? X.addrat(K) : X.addrat(Y); EXPECT(X.i.num * yd + yn * X.i.den, X.i.den * yd); break;
    case 1: r = with_int ? X.subrat(K) : X.subrat(Y); EXPECT(X.i.num * yd - yn * X.i.den, X.i.den * yd); break;
    case 2: r = with_int ? X.mulrat(K) : X.mulrat(Y); EXPECT(X.i.num * yn, X.i.den * yd); break;
    case 3: r = with_int ? X.divrat(K) : X.divrat(Y); EXPECT(X.i.num * yd, X.i.den * yn); divzero = yn == 0; break;
    case 4: __CPROVER_assume(with_int); r = X.rsubrat(K); EXPECT(yn * X.i.den - X.i.num, X.i.den); break;
    default: __CPROVER_assume(with_int); r = X.rdivrat(K); EXPECT(yn * X.i.den, X.i.num); break;    /* X != 0 */
  }
  if (divzero) OBL("C05.Rational.divrat.post.division_by_zero_is_zoo", r->kind == NK_ZOO);      /* X is non-zero */
  else {
    OBL("C05.Rational.ops.post.normalised", normalised(r));
    VALUE("C05.Rational.ops.post.value", r, en, ed);
  }
  REACHABLE("h_rat_ops");
}
extern "C" void h_powrat(void)
{
  init();
  Rational X; mk_canonical_nonint(X, -3, 3, 3);
  Integer E; E.i = nondet_long(); RANGE(E.i, -3, 3);
  Number En; En.kind = NK_INTEGER; En.in = &E; En.ra = &s_norat; En.co = &s_nocplx; E.num_ = &En;
  verif_may_throw = false;
  RCPNumber r = X.powrat(E);
  OBL("C05.Rational.powrat.post.normalised", normalised(r));
#ifndef EXACT_ABSTRACT
  long e = E.i, pn = ipow(X.i.num, e < 0 ? -e : e), pd = ipow(X.i.den, e < 0 ? -e : e);
  if (e >= 0) OBL("C05.Rational.powrat.post.value", num_of(r) * pd == pn * den_of(r));
  else OBL("C05.Rational.powrat.post.value_negative_exponent", num_of(r) * pn == pd * den_of(r));
#endif
  REACHABLE("h_powrat");
}
extern "C" void h_complex_from(void)
{
  init();
  /* two exact reals of either kind */
  Number Re, Im; Integer ReI, ImI; Rational ReR, ImR;
  Re.in = &ReI; Re.ra = &ReR; Re.co = &s_nocplx; Im.in = &ImI; Im.ra = &ImR; Im.co = &s_nocplx;
  ReI.i = nondet_long(); ImI.i = nondet_long(); RANGE(ReI.i, -6, 6); RANGE(ImI.i, -6, 6);
  mk_canonical_nonint(ReR, -6, 6, 6); mk_canonical_nonint(ImR, -6, 6, 6);
  Re.kind = nondet_boolean() ? NK_INTEGER : NK_RATIONAL; Im.kind = nondet_boolean() ? NK_INTEGER : NK_RATIONAL;
  long rn = Re.kind == NK_INTEGER ? ReI.i : ReR.i.num, rd = Re.kind == NK_INTEGER ? 1 : ReR.i.den;
  long in_ = Im.kind == NK_INTEGER ? ImI.i : ImR.i.num, id = Im.kind == NK_INTEGER ? 1 : ImR.i.den;
  verif_may_throw = false;
  RCPNumber r;
  if (Re.kind == NK_RATIONAL && Im.kind == NK_RATIONAL && nondet_boolean()) r = Complex::from_two_rats(ReR, ImR);
  else r = Complex::from_two_nums(Re, Im);
  if (in_ == 0) {
    OBL("C05.Complex.from_two_nums.post.zero_imaginary_part_gives_real", r->kind == NK_INTEGER || r->kind == NK_RATIONAL);
    OBL("C05.Complex.from_two_nums.post.real_value", normalised(r) && num_of(r) == rn && den_of(r) == rd);
  } else {
    OBL("C05.Complex.from_two_nums.post.complex_parts", r->kind == NK_COMPLEX && r->co->real_.num == rn && r->co->real_.den == rd
        && r->co->imaginary_.num == in_ && r->co->imaginary_.den == id);
  }
  REACHABLE("h_complex_from");
}

/* ------------------------------------------------------------------------------------------
   C20 (unit load_exact_numbers): the loaders of Rational and Complex (serialize-cereal.h, loaders.inc) hand archive data
   to the glue above.  Contract: for ANY two exact numbers read from the archive the loader either returns a normalised
   number (zoo / nan for a zero denominator) or throws a library exception — in particular no GMP precondition
   (non-zero denominator) is violated, which would be a SIGFPE in the real library. */
/* the virtual dispatchers Integer::/Rational:: add, sub, mul, div, pow (const Number &): exact x exact gives the exact, normalised value;
   any other kind of 'other' is forwarded to other.add / rsub / mul / rdiv / rpow with this as the argument */
extern "C" void h_dispatch(void)
{
  init(); fwd_op = F_NONE;
  Number A, B; Integer AI, BI; Rational AR, BR;
  A.in = &AI; A.ra = &AR; A.co = &s_nocplx; AI.num_ = &A; AR.num_ = &A; B.in = &BI; B.ra = &BR; B.co = &s_nocplx; BI.num_ = &B; BR.num_ = &B;
  AI.i = nondet_long(); BI.i = nondet_long(); RANGE(AI.i, -3, 3); RANGE(BI.i, -3, 3);
  mk_canonical_nonint(AR, -3, 3, 3); mk_canonical_nonint(BR, -3, 3, 3);
  A.kind = nondet_boolean() ? NK_INTEGER : NK_RATIONAL;
  int kb = nondet_int(); __CPROVER_assume(kb == NK_INTEGER || kb == NK_RATIONAL || kb == NK_COMPLEX); B.kind = kb;      /* NK_COMPLEX stands for every kind handled elsewhere */
  int op = nondet_int(); __CPROVER_assume(op >= 0 && op <= 4);
#ifdef DISPATCH_OP
  __CPROVER_assume(op == DISPATCH_OP);
#endif
#ifdef EXACT_ABSTRACT
  /* one machine word stands for a mathematical integer: keep operands below 2^30 so that Integer::addint/subint/mulint (real text) cannot wrap */
  __CPROVER_assume(AI.i > -(1L << 30) && AI.i < (1L << 30) && BI.i > -(1L << 30) && BI.i < (1L << 30));
#endif
  long an = A.kind == NK_INTEGER ? AI.i : AR.i.num, ad = A.kind == NK_INTEGER ? 1 : AR.i.den, bn = kb == NK_INTEGER ? BI.i : BR.i.num, bd = kb == NK_INTEGER ? 1 : BR.i.den;
  if (op == 4) { __CPROVER_assume(kb != NK_RATIONAL); __CPROVER_assume(BI.i >= -2 && BI.i <= 2); __CPROVER_assume(!(an == 0 && bn < 0)); }
  verif_may_throw = false;
  RCPNumber r;
  if (A.kind == NK_INTEGER) r = op == 0 ? AI.add(B) : op == 1 ? AI.sub(B) : op == 2 ? AI.mul(B) : op == 3 ? AI.div(B) : AI.pow(B);
  else r = op == 0 ? AR.add(B) : op == 1 ? AR.sub(B) : op == 2 ? AR.mul(B) : op == 3 ? AR.div(B) : AR.pow(B);
  if (kb == NK_COMPLEX) {
    OBL("C05.dispatch.other_kinds_are_forwarded_to_the_matching_reverse_operation", fwd_target == &B && fwd_arg == &A && fwd_op == (op == 0 ? F_ADD : op == 1 ? F_RSUB : op == 2 ? F_MUL : op == 3 ? F_RDIV : F_RPOW));
  } else if (op == 3 && bn == 0) {
    OBL("C05.dispatch.division_by_exact_zero_is_zoo_or_nan", r->kind == (an == 0 ? NK_NAN : NK_ZOO));
  } else {
    OBL("C05.dispatch.exact_result_is_normalised", fwd_op == F_NONE && normalised(r));
#ifndef EXACT_ABSTRACT
    if (op == 0) VALUE("C05.dispatch.add.value", r, an * bd + bn * ad, ad * bd);
    if (op == 1) VALUE("C05.dispatch.sub.value", r, an * bd - bn * ad, ad * bd);
    if (op == 2) VALUE("C05.dispatch.mul.value", r, an * bn, ad * bd);
    if (op == 3) VALUE("C05.dispatch.div.value", r, an * bd, ad * bn);
    if (op == 4) { long e = bn < 0 ? -bn : bn, pn = ipow(an, e), pd = ipow(ad, e); if (bn >= 0) VALUE("C05.dispatch.pow.value", r, pn, pd); else VALUE("C05.dispatch.pow.value_negative_exponent", r, pd, pn); }
#endif
  }
  REACHABLE("h_dispatch");
}
#ifndef EXACT_ABSTRACT
/* Gaussian-rational arithmetic of Complex (in-class helpers and dispatchers, real text): exact value and normal form
   (a Complex only when the imaginary part is non-zero), for small operands; oracle = textbook complex arithmetic over the rational stub */
static rational_class q_of(long n, long d) { rational_class r; r.num = n; r.den = d; r.canon = true; return r; }
extern "C" void h_complex_ops(void)
{
  init(); fwd_op = F_NONE;
  Number Zn, B; Complex Z, BC; Integer BI; Rational BR;
  Zn.kind = NK_COMPLEX; Zn.co = &Z; Zn.in = &s_noint; Zn.ra = &s_norat; Z.num_ = &Zn;
  B.in = &BI; B.ra = &BR; B.co = &BC; BI.num_ = &B; BR.num_ = &B; BC.num_ = &B;
  long zr = nondet_long(), zi = nondet_long(), zd = nondet_long(), zid = nondet_long();
  __CPROVER_assume(zr >= -2 && zr <= 2 && zi >= -2 && zi <= 2 && zi != 0 && zd >= 1 && zd <= 2 && zid >= 1 && zid <= 2 && exact_gcd(zr, zd) == 1 && exact_gcd(zi, zid) == 1 && (zr != 0 || zd == 1));
  Z.real_ = q_of(zr, zd); Z.imaginary_ = q_of(zi, zid);
  BI.i = nondet_long(); __CPROVER_assume(BI.i >= -2 && BI.i <= 2);
  mk_canonical_nonint(BR, -2, 2, 2);
  long cr = nondet_long(), ci = nondet_long(); __CPROVER_assume(cr >= -2 && cr <= 2 && ci >= -2 && ci <= 2 && ci != 0);
  BC.real_ = q_of(cr, 1); BC.imaginary_ = q_of(ci, 1);
  int kb = nondet_int(); __CPROVER_assume(kb == NK_INTEGER || kb == NK_RATIONAL || kb == NK_COMPLEX); B.kind = kb;
  int op = nondet_int(); __CPROVER_assume(op >= 0 && op <= 5);
#ifdef COMPLEX_OP
  __CPROVER_assume(op == COMPLEX_OP);
#endif
  __CPROVER_assume(op != 5 || kb == NK_INTEGER);          /* rdiv is only reached from Integer::div */
  __CPROVER_assume(op != 4 || kb != NK_COMPLEX);          /* rsub is only reached from Integer::sub / Rational::sub */
  rational_class br, bi = q_of(0, 1);           /* (no ?: on class-type operands: CBMC's symex aborts on them) */
  if (kb == NK_INTEGER) br = q_of(BI.i, 1); else if (kb == NK_RATIONAL) br = BR.i; else { br = BC.real_; bi = BC.imaginary_; }
  rational_class er, ei; bool undefined = false;
  rational_class a = Z.real_, b = Z.imaginary_;
  if (op == 0) { er = q_add(a, br); ei = q_add(b, bi); }
  else if (op == 1) { er = q_sub(a, br); ei = q_sub(b, bi); }
  else if (op == 4) { er = q_sub(br, a); ei = q_sub(bi, b); }
  else if (op == 2) { er = q_sub(q_mul(a, br), q_mul(b, bi)); ei = q_add(q_mul(a, bi), q_mul(b, br)); }
  else {
    /* x / y = x * conj(y) / |y|^2 ; op 3: Z / B, op 5: B / Z */
    rational_class xr, xi, yr, yi;
    if (op == 3) { xr = a; xi = b; yr = br; yi = bi; } else { xr = br; xi = bi; yr = a; yi = b; }
    rational_class m = q_add(q_mul(yr, yr), q_mul(yi, yi));
    if (m.num == 0) undefined = true;
    else { er = q_div(q_add(q_mul(xr, yr), q_mul(xi, yi)), m); ei = q_div(q_sub(q_mul(xi, yr), q_mul(xr, yi)), m); }
  }
  verif_may_throw = false;
  RCPNumber r = op == 0 ? Z.add(B) : op == 1 ? Z.sub(B) : op == 2 ? Z.mul(B) : op == 3 ? Z.div(B) : op == 4 ? Z.rsub(B) : Z.rdiv(B);
  if (undefined) OBL("C05.Complex.ops.post.division_by_exact_zero_is_zoo", r->kind == NK_ZOO);        /* the dividend is non-zero here */
  else if (ei.num == 0) {
    OBL("C05.Complex.ops.post.zero_imaginary_part_gives_a_normalised_real", normalised(r) && num_of(r) == er.num && den_of(r) == er.den);
  } else {
    OBL("C05.Complex.ops.post.complex_result_value", r->kind == NK_COMPLEX && r->co->real_.num == er.num && r->co->real_.den == er.den && r->co->imaginary_.num == ei.num && r->co->imaginary_.den == ei.den);
  }
  REACHABLE("h_complex_ops");
}
#endif
extern "C" void h_powcomp(void)
{
  init();
  I_obj.kind = NK_COMPLEX; m1_obj.kind = NK_INTEGER; I = &I_obj; minus_one = &m1_obj;
  Complex Z; Z.real_.num = 0; Z.real_.den = 1; Z.real_.canon = true;                     /* purely imaginary base i*q, q != 0 canonical */
  Z.imaginary_.num = nondet_long(); Z.imaginary_.den = nondet_long(); Z.imaginary_.canon = true;
  RANGE(Z.imaginary_.num, -12, 12); RANGE(Z.imaginary_.den, 1, 12); __CPROVER_assume(Z.imaginary_.den >= 1 && Z.imaginary_.num != 0);
  Integer E; E.i = nondet_long(); __CPROVER_assume(E.i > -(1L << 40) && E.i < (1L << 40));
  verif_may_throw = false;
  RCPNumber r = Z.powcomp(E);
  long m = E.i % 4; if (m < 0) m = m + 4;                                                  /* the mathematical n mod 4 */
  RCPNumber unit = m == 0 ? one : (m == 1 ? I : (m == 2 ? minus_one : &negI_obj));
  OBL("C05.Complex.powcomp.post.imaginary_base_result_is_q_pow_n_times_i_pow_n_mod_4", r == &prod_obj && prod_obj.mul_lhs == &powres_obj && prod_obj.mul_rhs == unit);
  REACHABLE("h_powcomp");
}
#ifdef C20_LOADERS
struct ArchiveN {
  Number *a_, *b_;
  void operator()(Integer *&x, Integer *&y) { x = a_->in; y = b_->in; }
  void operator()(Number *&x, Number *&y) { x = a_; y = b_; }
};
typedef ArchiveN Archive;
#include "loaders.inc"
extern "C" void h_load_rational(void)
{
  init();
  Number N, D; Integer NI, DI;
  N.kind = NK_INTEGER; N.in = &NI; N.ra = &s_norat; N.co = &s_nocplx; D.kind = NK_INTEGER; D.in = &DI; D.ra = &s_norat; D.co = &s_nocplx; NI.num_ = &N; DI.num_ = &D;
  NI.i = nondet_long(); DI.i = nondet_long(); RANGE(NI.i, -12, 12); RANGE(DI.i, -12, 12);
  ArchiveN ar; ar.a_ = &N; ar.b_ = &D;
  verif_may_throw = false;
  int dummy = 0;
  RCPNumber r = load_basic_Rational(ar, dummy);
  if (DI.i == 0) OBL("C20.load_basic.Rational.post.zero_denominator_gives_zoo_or_nan", r->kind == (NI.i == 0 ? NK_NAN : NK_ZOO));
  else OBL("C20.load_basic.Rational.post.result_is_normalised", normalised(r));
  REACHABLE("h_load_rational");
}
extern "C" void h_load_complex(void)
{
  init();
  Number Re, Im; Integer ReI, ImI; Rational ReR, ImR;
  Re.in = &ReI; Re.ra = &ReR; Re.co = &s_nocplx; Im.in = &ImI; Im.ra = &ImR; Im.co = &s_nocplx;
  ReI.i = nondet_long(); ImI.i = nondet_long(); RANGE(ReI.i, -6, 6); RANGE(ImI.i, -6, 6);
  mk_canonical_nonint(ReR, -6, 6, 6); mk_canonical_nonint(ImR, -6, 6, 6);
  int kr = nondet_int(), ki = nondet_int(); __CPROVER_assume(kr >= NK_INTEGER && kr <= NK_ZOO && ki >= NK_INTEGER && ki <= NK_ZOO);
  Re.kind = kr; Im.kind = ki;
  ArchiveN ar; ar.a_ = &Re; ar.b_ = &Im;
  bool exact = (kr == NK_INTEGER || kr == NK_RATIONAL) && (ki == NK_INTEGER || ki == NK_RATIONAL);
  verif_may_throw = !exact;                          /* "Invalid Format: Expected Integer or Rational" for anything else */
  int dummy = 0;
  RCPNumber r = load_basic_Complex(ar, dummy);
  OBL("C20.load_basic.Complex.post.result_is_a_normalised_exact_number", r->kind == NK_COMPLEX || normalised(r));
  REACHABLE("h_load_complex");
}
#endif

import sys, os
from vf import Unit, Entry, Piece, R

META = {"level": "proof"}
IC, IH = 'symengine/integer.cpp', 'symengine/integer.h'
RC, RH = 'symengine/rational.cpp', 'symengine/rational.h'
CC = 'symengine/complex.cpp'

TOK = [
    R(r'RCP<const (Number|Integer|Basic)>', 'RCPNumber', n='*', regex=True, why="RCP<const T> -> raw pointer typedef"),
    R(r'is_a<(\w+)>\(', r'is_a_\1(', n='*', regex=True),
    R(r'down_cast<const (\w+) &>\(', r'as_\1(', n='*', regex=True),
    R(r'make_rcp<const (\w+)>\(', r'mk_\1(', n='*', regex=True, why="make_rcp<T>(...) -> stub constructor carrying the class invariant as an obligation"),
    R(r'from_mpq\(std::move\(', 'from_mpq_rv((', n='*', regex=True, why="rvalue overload selected by std::move at the call -> distinct name"),
    R(r'std::move\(', 'std_move(', n='*', regex=True, why="rvalue conversion is not supported: identity on lvalues"),
    R(r'throw (\w+)\(((?:[^;()"]|"[^"]*"|\([^()]*\))*)\);', r'VERIF_THROW(\1);', n='*', regex=True),
]

def inclass(relpath, cls, sig, extra=()):
    return Piece(relpath, sig, rules=list(extra) + TOK)

def pieces():
    glue = [
        Piece(IC, r'RCP<const Number> Integer::divint\(const Integer &other\) const', rules=TOK),
        Piece(IC, r'RCP<const Number> Integer::rdiv\(const Number &other\) const', rules=TOK),
        Piece(IC, r'RCP<const Number> Integer::pow_negint\(const Integer &other\) const', rules=TOK),
        Piece(RC, r'bool Rational::is_canonical\(const rational_class &i\) const', rules=TOK),
        Piece(RC, r'RCP<const Number> Rational::from_mpq\(const rational_class &i\)', rules=TOK),
        Piece(RC, r'RCP<const Number> Rational::from_mpq\(rational_class &&i\)',
              rules=[R('Rational::from_mpq(rational_class &&i)', 'Rational::from_mpq_rv(rational_class &i)', n=1, why="&& parameter -> lvalue reference, distinct name")] + TOK),
        Piece(RC, r'RCP<const Number> Rational::from_two_ints\(const Integer &n, const Integer &d\)', rules=TOK),
        Piece(RC, r'RCP<const Number> Rational::from_two_ints\(long n, long d\)', rules=TOK),
        Piece(CC, r'bool Complex::is_canonical\(const rational_class &real,', rules=TOK),
        Piece(CC, r'RCP<const Number> Complex::from_mpq\(const rational_class re,', rules=TOK),
        Piece(CC, r'RCP<const Number> Complex::from_two_rats\(const Rational &re, const Rational &im\)', rules=TOK),
        Piece(CC, r'RCP<const Number> Complex::from_two_nums\(const Number &re, const Number &im\)', rules=TOK),
        Piece(CC, r'RCP<const Number> Complex::powcomp\(const Integer &other\) const', rules=TOK),
    ]
    iin = [Piece(IH, r'inline RCP<const Number> powint\(const Integer &other\) const',
                 rules=[R('make_rcp<const Integer>(', 'integer(', n=1, why="RCP<const Integer> converts implicitly to RCP<const Number>: the stub constructor returning the Number view")] + TOK),
           Piece(IH, r'inline RCP<const Integer> neg\(\) const', rules=[R('RCP<const Integer>', 'Integer *', n=1, why="neg() result is dereferenced as an Integer")] + TOK)]
    rin = []
    for m, args in (('addrat', ('Rational', 'Integer')), ('subrat', ('Rational', 'Integer')), ('rsubrat', ('Integer',)),
                    ('mulrat', ('Rational', 'Integer')), ('divrat', ('Rational', 'Integer')), ('rdivrat', ('Integer',)), ('powrat', ('Integer',))):
        for a in args:
            rin.append(Piece(RH, r'inline RCP<const Number> %s\(const %s &other\) const' % (m, a), rules=TOK))
    ovr = [R(r'\) const override\b', ') const', n='*', regex=True, why="'override' is rejected by the front end")]
    iin.append(Piece(IH, r'^    inline RCP<const Integer> addint\(const Integer &other\) const', region_end=r'mulint\(const Integer &other\) const\s*\{[\s\S]*?\n    \}',
                     rules=[R('make_rcp<const Integer>(', 'integer(', n=3, why="RCP<const Integer> converts implicitly to RCP<const Number>: the stub constructor returning the Number view")] + TOK,
                     name='Integer: addint, subint, mulint [one verbatim region of the class body]'))
    idisp = [Piece(IH, r'^    RCP<const Number> add\(const Number &other\) const override', region_end=r'RCP<const Number> rpow\(const Number &other\) const override\s*\{[\s\S]*?\n    \};',
                   rules=ovr + TOK, name='Integer: dispatchers add .. rpow [one verbatim region of the class body]')]
    rdisp = [Piece(RH, r'^    RCP<const Number> add\(const Number &other\) const override', region_end=r'RCP<const Number> rpow\(const Number &other\) const override\s*\{[\s\S]*?\n    \};',
                   rules=ovr + TOK, name='Rational: dispatchers add .. rpow [one verbatim region of the class body]')]
    CH = 'symengine/complex.h'
    cin = [Piece(CH, r'^    inline RCP<const Number> addcomp\(const Complex &other\) const', region_end=r'inline RCP<const Number> rdivcomp\(const Integer &other\) const\s*\{[\s\S]*?\n    \}\n',
                 rules=TOK, name='Complex: addcomp .. rdivcomp [one verbatim region of the class body]'),
           Piece(CH, r'^    RCP<const Number> add\(const Number &other\) const override', region_end=r'RCP<const Number> rdiv\(const Number &other\) const override\s*\{[\s\S]*?\n    \};?',
                 rules=ovr + TOK, name='Complex: dispatchers add .. rdiv [one verbatim region of the class body]')]
    return {'glue.inc': glue, 'integer_inline.inc': iin, 'rational_inline.inc': rin, 'integer_dispatch.inc': idisp, 'rational_dispatch.inc': rdisp, 'complex_inline.inc': cin}

HS = ['h_divint', 'h_powint', 'h_from_two_ints', 'h_from_mpq', 'h_rat_ops', 'h_powrat', 'h_complex_from']
HS_ABS = HS + ['h_powcomp', 'h_dispatch']

def units(tier):
    big = tier == 'thorough'
    uw = ['mp_pow_ui.0:6', 'ipow.0:6']
    absu = Unit('glue_structure', 'C05', 'contracts/C05/exact.cpp', pieces(),
                [Entry(h, defines={'EXACT_ABSTRACT': 1}, timeout=300, unwindset=uw, unwind=4, bounds="full 64-bit operands; GMP results are arbitrary canonical values") for h in HS_ABS],
                route='F',
                trusted=["GMP contracts (prelude/exactnum.h): canonicalize and every mpq operator return lowest terms with positive denominator; "
                         "rational_class(n,d), mpq division require a non-zero denominator/divisor; mp_pow_ui, mp_sign, mp_abs, mp_fits_ulong_p",
                         "temporaries bind to Rational::from_mpq(const rational_class&) in the stub (the real && overload has the same body up to the copy)"],
                assumptions=["the limb arithmetic itself (+ - * / on mpz/mpq) is GMP's and is not verified",
                             "pow_number/powcomp (Gaussian-rational square-and-multiply) not under contract"])
    conc = Unit('glue_values', 'C05', 'contracts/C05/exact.cpp', pieces(),
                [Entry(h, timeout=600, unwindset=uw, unwind=4, mem_gb=6,
                       bounds="operands in [-12,12] (integers), num in [-4,4] / den in [2,4] (rationals), |exponent| <= 4; exact machine arithmetic, no overflow in range") for h in HS],
                route='B', trusted=absu.trusted, assumptions=absu.assumptions)
    for k, nm in enumerate(('add', 'sub', 'mul', 'div', 'rsub', 'rdiv')):
        conc.entries.append(Entry('h_complex_ops', defines={'COMPLEX_OP': k}, timeout=1200, unwindset=uw, unwind=4, mem_gb=6, label='h_complex_ops_' + nm,
                                  bounds="Gaussian rationals with |num| <= 2, den <= 2; other operand Integer/Rational/Complex of the same size; exact table arithmetic"))
    for k, nm in enumerate(('add', 'sub', 'mul', 'div', 'pow')):
        conc.entries.append(Entry('h_dispatch', defines={'DISPATCH_OP': k}, timeout=900, unwindset=uw, unwind=4, mem_gb=6, label='h_dispatch_' + nm,
                                  bounds="Integer/Rational operands with |num| <= 4, den <= 4, exponent |e| <= 3; exact machine arithmetic"))
    return [absu, conc]

def replay_args(obl, inputs, res):
    keep = ('A.i', 'B.i', 'n', 'd', 'op', 'with_int', 'reversed', 'X.i.num', 'X.i.den', 'Y.i.num', 'Y.i.den', 'K.i', 'E.i', 'Z.imaginary_.num', 'Z.imaginary_.den')
    return [obl] + ["%s=%s" % (k, v.get("binary") or v.get("data")) for k, v in sorted(inputs.items()) if k in keep]

/* dense prelude: DenseMatrix skeleton with the data members of symengine/matrix.h over the field prelude;
   permutelist / vec_uint stubs.  The members resize/get/set/is_lower/is_upper are the REAL text (dense.inc);
   mul_scalar / transpose are the trusted glue of the virtual interface (is_a<DenseMatrix> + down_cast) to the
   extracted free functions. */
#ifndef VERIF_DENSE_PRELUDE_H
#define VERIF_DENSE_PRELUDE_H
#include "field.h"
struct SymEngineException {}; struct NotImplementedError {};
struct pl_pair { unsigned first, second; };
inline pl_pair mk_pair(unsigned a, unsigned b) { pl_pair p; p.first = a; p.second = b; return p; }
#define PLCAP 6
struct permutelist {
  pl_pair d[PLCAP]; unsigned n;
  permutelist() { n = 0; }
  unsigned size() const { return n; }
  pl_pair at(unsigned k) const { __CPROVER_assert(k < n, "permutelist index in bounds"); return d[k < PLCAP ? k : 0]; }
  void push_back(pl_pair p) { __CPROVER_assert(n < PLCAP, "stub capacity (permutelist)"); if (n < PLCAP) { d[n].first = p.first; d[n].second = p.second; n = n + 1; } }
};
struct vec_uint {
  unsigned d[8]; unsigned n;
  vec_uint() { n = 0; }
  unsigned size() const { return n; }
  unsigned operator[](unsigned i) const { __CPROVER_assert(i < n, "vector index in bounds"); return d[i < 8 ? i : 0]; }
  void push_back(unsigned v) { __CPROVER_assert(n < 8, "stub capacity (vec_uint)"); if (n < 8) { d[n] = v; n = n + 1; } }
};
extern "C" void uvd_fill(unsigned *d) { for (unsigned i = 0; i < CAP; i++) d[i] = 0; }
struct uvec_d {                 /* std::vector<unsigned> */
  unsigned d[CAP]; unsigned n;
  uvec_d() { n = 0; }
  uvec_d(unsigned k) { __CPROVER_assert(k <= CAP, "stub capacity (vector<unsigned>)"); n = k; uvd_fill(d); }
  unsigned size() const { return n; }
  unsigned &operator[](unsigned i) { __CPROVER_assert(i < n, "vector index in bounds"); return d[i < CAP ? i : 0]; }
  void push_back(unsigned v) { __CPROVER_assert(n < CAP, "stub capacity (vector<unsigned>)"); if (n < CAP) { d[n] = v; n = n + 1; } }
};
class DenseMatrix;
void mul_dense_scalar(const DenseMatrix &A, const RCPBasic &k, DenseMatrix &B);
void transpose_dense(const DenseMatrix &A, DenseMatrix &B);
class DenseMatrix {
public:
  vec_basic m_; unsigned row_, col_;
  DenseMatrix() { row_ = 0; col_ = 0; }
  DenseMatrix(unsigned r, unsigned c) { __CPROVER_assert(r * c <= CAP, "stub capacity (DenseMatrix)"); row_ = r; col_ = c; m_.n = r * c; vb_fill(m_.d, 0, CAP, 0, false); }
  DenseMatrix(unsigned r, unsigned c, const vec_basic &l) { row_ = r; col_ = c; m_ = l; __CPROVER_assert(m_.size() == r * c, "SYMENGINE_ASSERT m_.size() == row * col (DenseMatrix ctor)"); }
  DenseMatrix(const DenseMatrix &o) { m_ = o.m_; row_ = o.row_; col_ = o.col_; }
  DenseMatrix &operator=(const DenseMatrix &o) { m_ = o.m_; row_ = o.row_; col_ = o.col_; return *this; }
  unsigned nrows() const { return row_; }
  unsigned ncols() const { return col_; }
  void resize(unsigned row, unsigned col);
  RCPBasic get(unsigned i, unsigned j) const;
  void set(unsigned i, unsigned j, const RCPBasic &e);
  bool is_lower() const;
  bool is_upper() const;
  void row_insert(const DenseMatrix &B, unsigned pos);
  void col_insert(const DenseMatrix &B, unsigned pos);
  void row_del(unsigned k);
  void col_del(unsigned k);
  void row_join(const DenseMatrix &B);
  void col_join(const DenseMatrix &B);
  void mul_scalar(const RCPBasic &k, DenseMatrix &result) const { mul_dense_scalar(*this, k, result); }
  void transpose(DenseMatrix &result) const { transpose_dense(*this, result); }
};
/* std::vector<DenseMatrix> (berkowitz): fixed capacity, separately stored elements */
#define DMCAP 4
struct dm_vector {
  DenseMatrix d[DMCAP]; unsigned n;
  dm_vector() { n = 0; }
  unsigned size() const { return n; }
  void clear() { n = 0; }
  void push_back(const DenseMatrix &x) { __CPROVER_assert(n < DMCAP, "stub capacity (vector<DenseMatrix>)"); if (n < DMCAP) { d[n] = x; n = n + 1; } }
  DenseMatrix &operator[](unsigned i) { __CPROVER_assert(i < n, "vector index in bounds"); return d[i < DMCAP ? i : 0]; }
};
inline vec_basic mk_vec2(const RCPBasic &a, const RCPBasic &b) { vec_basic v(2); v.d[0] = a; v.d[1] = b; return v; }
inline RCPBasic pow(const RCPBasic &a, const RCPBasic &e) { __CPROVER_assert(e.nn && FVAL(e) == 2 % FP, "stub: pow is only modelled for the exponent 2"); return mul(a, a); }
inline RCPBasic sel_rcp(bool c, const RCPBasic &a, const RCPBasic &b) { if (c) return a; return b; }
inline RCPBasic expand(const RCPBasic &a) { return a; }
inline RCPBasic conjugate(const RCPBasic &a) { return a; }
namespace std { inline int abs(int k) { return k < 0 ? -k : k; } }
/* declarations of the extracted free functions (forward references between them) */
unsigned pivot(DenseMatrix &B, unsigned r, unsigned c);
void row_exchange_dense(DenseMatrix &A, unsigned i, unsigned j);
void row_mul_scalar_dense(DenseMatrix &A, unsigned i, RCPBasic &c);
void row_add_row_dense(DenseMatrix &A, unsigned i, unsigned j, RCPBasic &c);
void mul_dense_dense(const DenseMatrix &A, const DenseMatrix &B, DenseMatrix &C);
void fraction_free_LU(const DenseMatrix &A, DenseMatrix &LU);
void LU(const DenseMatrix &A, DenseMatrix &L, DenseMatrix &U);
void pivoted_LU(const DenseMatrix &A, DenseMatrix &LU, permutelist &pl);
void pivoted_LU(const DenseMatrix &A, DenseMatrix &L, DenseMatrix &U, permutelist &pl);
void LDL(const DenseMatrix &A, DenseMatrix &L, DenseMatrix &D);
void forward_substitution(const DenseMatrix &A, const DenseMatrix &b, DenseMatrix &x);
void back_substitution(const DenseMatrix &U, const DenseMatrix &b, DenseMatrix &x);
void diagonal_solve(const DenseMatrix &A, const DenseMatrix &b, DenseMatrix &x);
void LU_solve(const DenseMatrix &A, const DenseMatrix &b, DenseMatrix &x);
void pivoted_LU_solve(const DenseMatrix &A, const DenseMatrix &b, DenseMatrix &x);
void fraction_free_gauss_jordan_solve(const DenseMatrix &A, const DenseMatrix &b, DenseMatrix &x, bool pivot = true);
bool is_symmetric_dense(const DenseMatrix &A);
void permuteFwd(DenseMatrix &A, permutelist &pl);
void eye(DenseMatrix &A, int k = 0);
void diag(DenseMatrix &A, vec_basic &v, int k = 0);
void zeros(DenseMatrix &A);
void pivoted_gauss_jordan_elimination(const DenseMatrix &A, DenseMatrix &B, permutelist &pl);
void pivoted_fraction_free_gauss_jordan_elimination(const DenseMatrix &A, DenseMatrix &B, permutelist &pl);
void berkowitz(const DenseMatrix &A, dm_vector &polys);
#endif

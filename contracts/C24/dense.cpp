/* C24 route B: the dense-matrix routines of dense_matrix.cpp (real text in dense.inc) over GF(FP), NN x NN (and NN x MM)
   matrices with symbolic entries.  Oracles are textbook definitions written directly over the field tables
   (explicit products, cofactor expansion, null-space equality) and are independent of the code under test.
   Executions that divide by the field's zero are excluded where the routine documents a non-singularity
   precondition; for pivoting routines "no division by zero on a non-singular input" is itself an obligation. */
#include "dense_prelude.h"
FIELD_GLOBALS
#include "dense.inc"
#ifndef MM
#define MM NN
#endif
#define A2(T, i, j) T[(i) * NN + (j)]
typedef fe_t fmat[CAP];
extern "C" void any_matrix(DenseMatrix &A, fe_t *a, unsigned r, unsigned c)
{
  A.row_ = r; A.col_ = c; A.m_.n = r * c;
  for (unsigned k = 0; k < CAP; k++) { a[k] = nondet_fe(); A.m_.d[k] = mkr(a[k]); }
}
extern "C" void any_vec(fe_t *v) { for (unsigned k = 0; k < CAP; k++) v[k] = nondet_fe(); }
extern "C" void out_matrix(const DenseMatrix &A, fe_t *a) { for (unsigned k = 0; k < CAP; k++) a[k] = FVAL(A.m_.d[k]); }
extern "C" bool all_set(const DenseMatrix &A) { bool ok = true; for (unsigned k = 0; k < CAP; k++) if (k < A.row_ * A.col_ && !A.m_.d[k].nn) ok = false; return ok; }
#define F_ADD(x, y) T_ADD[x][y]
#define F_SUB(x, y) T_SUB[x][y]
#define F_MUL(x, y) T_MUL[x][y]
/* textbook product C(r x c) = A(r x m) * B(m x c) */
extern "C" void ref_mul(const fe_t *a, const fe_t *b, fe_t *c, unsigned r, unsigned m, unsigned cc)
{
  for (unsigned i = 0; i < NN; i++) for (unsigned j = 0; j < NN; j++) if (i < r && j < cc) {
    fe_t s = 0;
    for (unsigned k = 0; k < NN; k++) if (k < m) s = F_ADD(s, F_MUL(a[i * m + k], b[k * cc + j]));
    c[i * cc + j] = s;
  }
}
/* cofactor expansion, n = NN (2, 3 or 4) */
static fe_t det2(fe_t a, fe_t b, fe_t c, fe_t d) { return F_SUB(F_MUL(a, d), F_MUL(b, c)); }
static fe_t det3(fe_t a0, fe_t a1, fe_t a2, fe_t b0, fe_t b1, fe_t b2, fe_t c0, fe_t c1, fe_t c2)
{ return F_ADD(F_SUB(F_MUL(a0, det2(b1, b2, c1, c2)), F_MUL(a1, det2(b0, b2, c0, c2))), F_MUL(a2, det2(b0, b1, c0, c1))); }
static fe_t ref_det(const fe_t *a)
{
#if NN == 1
  return a[0];
#elif NN == 2
  return det2(a[0], a[1], a[2], a[3]);
#elif NN == 3
  return det3(a[0], a[1], a[2], a[3], a[4], a[5], a[6], a[7], a[8]);
#else
  fe_t m0 = det3(a[5], a[6], a[7], a[9], a[10], a[11], a[13], a[14], a[15]);
  fe_t m1 = det3(a[4], a[6], a[7], a[8], a[10], a[11], a[12], a[14], a[15]);
  fe_t m2 = det3(a[4], a[5], a[7], a[8], a[9], a[11], a[12], a[13], a[15]);
  fe_t m3 = det3(a[4], a[5], a[6], a[8], a[9], a[10], a[12], a[13], a[14]);
  return F_SUB(F_ADD(F_SUB(F_MUL(a[0], m0), F_MUL(a[1], m1)), F_MUL(a[2], m2)), F_MUL(a[3], m3));
#endif
}
#define SQ(i, j) for (unsigned i = 0; i < NN; i++) for (unsigned j = 0; j < NN; j++)

/* ------------------------------------------------------------------ data movement and entrywise operations */
extern "C" void h_entrywise(void)
{
  field_init();
  DenseMatrix A, B, C(NN, MM), T(MM, NN); fmat a, b;
  any_matrix(A, a, NN, MM); any_matrix(B, b, NN, MM);
  fe_t k = nondet_fe(); RCPBasic K = mkr(k);
  verif_may_throw = false;
  int which = nondet_int();
  unsigned gi = nondet_uint(), gj = nondet_uint(); __CPROVER_assume(gi < NN && gj < MM);       /* ghost entry */
  fe_t x = a[gi * MM + gj], y = b[gi * MM + gj];
  if (which == 0) { add_dense_dense(A, B, C); OBL("C24.add_dense_dense.post.entrywise_sum", FVAL(C.m_.d[gi * MM + gj]) == F_ADD(x, y)); }
  else if (which == 1) { add_dense_scalar(A, K, C); OBL("C24.add_dense_scalar.post", FVAL(C.m_.d[gi * MM + gj]) == F_ADD(x, k)); }
  else if (which == 2) { mul_dense_scalar(A, K, C); OBL("C24.mul_dense_scalar.post", FVAL(C.m_.d[gi * MM + gj]) == F_MUL(x, k)); }
  else if (which == 3) { elementwise_mul_dense_dense(A, B, C); OBL("C24.elementwise_mul_dense_dense.post", FVAL(C.m_.d[gi * MM + gj]) == F_MUL(x, y)); }
  else if (which == 4) { transpose_dense(A, T); OBL("C24.transpose_dense.post.entry_j_i", T.row_ == MM && T.col_ == NN && FVAL(T.m_.d[gj * NN + gi]) == x && all_set(T)); }
  else if (which == 5) { conjugate_dense(A, C); OBL("C24.conjugate_dense.post.real_entries_unchanged", FVAL(C.m_.d[gi * MM + gj]) == x); }
  else { conjugate_transpose_dense(A, T); OBL("C24.conjugate_transpose_dense.post", FVAL(T.m_.d[gj * NN + gi]) == x); }
  if (which != 4 && which <= 5 && which >= 0) OBL("C24.entrywise.post.every_entry_set", all_set(C));
  REACHABLE("h_entrywise");
}
extern "C" void h_rowcol_ops(void)
{
  field_init();
  DenseMatrix A; fmat a; any_matrix(A, a, NN, MM);
  unsigned i = nondet_uint(), j = nondet_uint(); fe_t c = nondet_fe(); RCPBasic Cc = mkr(c);
  unsigned gi = nondet_uint(), gj = nondet_uint(); __CPROVER_assume(gi < NN && gj < MM);
  verif_may_throw = false;
  int which = nondet_int();
  fe_t got, want;
  if (which == 0) { __CPROVER_assume(i != j && i < NN && j < NN); row_exchange_dense(A, i, j);
    want = a[(gi == i ? j : (gi == j ? i : gi)) * MM + gj]; got = FVAL(A.m_.d[gi * MM + gj]); OBL("C24.row_exchange_dense.post.rows_i_j_swapped_rest_unchanged", got == want); }
  else if (which == 1) { __CPROVER_assume(i != j && i < MM && j < MM); column_exchange_dense(A, i, j);
    want = a[gi * MM + (gj == i ? j : (gj == j ? i : gj))]; got = FVAL(A.m_.d[gi * MM + gj]); OBL("C24.column_exchange_dense.post.columns_i_j_swapped_rest_unchanged", got == want); }
  else if (which == 2) { __CPROVER_assume(i < NN); row_mul_scalar_dense(A, i, Cc);
    want = gi == i ? F_MUL(c, a[gi * MM + gj]) : a[gi * MM + gj]; got = FVAL(A.m_.d[gi * MM + gj]); OBL("C24.row_mul_scalar_dense.post", got == want); }
  else { __CPROVER_assume(i != j && i < NN && j < NN); row_add_row_dense(A, i, j, Cc);
    want = gi == i ? F_ADD(a[gi * MM + gj], F_MUL(c, a[j * MM + gj])) : a[gi * MM + gj]; got = FVAL(A.m_.d[gi * MM + gj]); OBL("C24.row_add_row_dense.post", got == want); }
  REACHABLE("h_rowcol_ops");
}
extern "C" void h_submatrix_insert_delete(void)
{
  field_init();
  DenseMatrix A; fmat a; any_matrix(A, a, NN, MM);
  verif_may_throw = false;
  int which = nondet_int();
  if (which == 0) {
    unsigned r0 = nondet_uint(), r1 = nondet_uint(), c0 = nondet_uint(), c1 = nondet_uint();
    __CPROVER_assume(r0 <= r1 && r1 < NN && c0 <= c1 && c1 < MM);
    DenseMatrix B(r1 - r0 + 1, c1 - c0 + 1);
    submatrix_dense(A, B, r0, c0, r1, c1, 1, 1);
    unsigned gi = nondet_uint(), gj = nondet_uint(); __CPROVER_assume(gi <= r1 - r0 && gj <= c1 - c0);
    OBL("C24.submatrix_dense.post.entry", B.m_.d[gi * B.col_ + gj].nn && FVAL(B.m_.d[gi * B.col_ + gj]) == a[(r0 + gi) * MM + c0 + gj]);
  } else if (which == 1) {            /* delete row k */
    unsigned k = nondet_uint(); __CPROVER_assume(k < NN);
    A.row_del(k);
    unsigned gi = nondet_uint(), gj = nondet_uint(); __CPROVER_assume(gi < NN - 1 && gj < MM);
    OBL("C24.row_del.post.shape", NN == 1 ? (A.row_ == 0 && A.col_ == 0) : (A.row_ == NN - 1 && A.col_ == MM && A.m_.n == (NN - 1) * MM));
    if (NN > 1) OBL("C24.row_del.post.remaining_rows_in_order", FVAL(A.m_.d[gi * MM + gj]) == a[(gi < k ? gi : gi + 1) * MM + gj]);
  } else if (which == 2) {            /* delete column k */
    unsigned k = nondet_uint(); __CPROVER_assume(k < MM);
    A.col_del(k);
    unsigned gi = nondet_uint(), gj = nondet_uint(); __CPROVER_assume(gi < NN && gj < MM - 1);
    OBL("C24.col_del.post.shape", MM == 1 ? (A.row_ == 0 && A.col_ == 0) : (A.row_ == NN && A.col_ == MM - 1 && A.m_.n == NN * (MM - 1)));
    if (MM > 1) OBL("C24.col_del.post.remaining_columns_in_order", FVAL(A.m_.d[gi * (MM - 1) + gj]) == a[gi * MM + (gj < k ? gj : gj + 1)]);
  } else if (which == 3) {            /* insert a block of 1 or 2 rows at pos */
    unsigned br = nondet_uint(); __CPROVER_assume(br >= 1 && br <= 2 && (NN + br) * MM <= CAP);
    DenseMatrix B; fmat b; any_matrix(B, b, br, MM);
    unsigned pos = nondet_uint(); __CPROVER_assume(pos <= NN);
    A.row_insert(B, pos);
    unsigned gi = nondet_uint(), gj = nondet_uint(); __CPROVER_assume(gi < NN + br && gj < MM);
    OBL("C24.row_insert.post.shape", A.row_ == NN + br && A.col_ == MM);
    OBL("C24.row_insert.post.entries", A.m_.d[gi * MM + gj].nn && FVAL(A.m_.d[gi * MM + gj]) == ((gi >= pos && gi < pos + br) ? b[(gi - pos) * MM + gj] : a[(gi < pos ? gi : gi - br) * MM + gj]));
  } else {                            /* insert a block of 1 or 2 columns at pos */
    unsigned bc = nondet_uint(); __CPROVER_assume(bc >= 1 && bc <= 2 && NN * (MM + bc) <= CAP);
    DenseMatrix B; fmat b; any_matrix(B, b, NN, bc);
    unsigned pos = nondet_uint(); __CPROVER_assume(pos <= MM);
    A.col_insert(B, pos);
    unsigned gi = nondet_uint(), gj = nondet_uint(); __CPROVER_assume(gi < NN && gj < MM + bc);
    OBL("C24.col_insert.post.shape", A.row_ == NN && A.col_ == MM + bc);
    OBL("C24.col_insert.post.entries", A.m_.d[gi * (MM + bc) + gj].nn && FVAL(A.m_.d[gi * (MM + bc) + gj]) == ((gj >= pos && gj < pos + bc) ? b[gi * bc + (gj - pos)] : a[gi * MM + (gj < pos ? gj : gj - bc)]));
  }
  REACHABLE("h_submatrix_insert_delete");
}
extern "C" void h_product(void)
{
  field_init();
  DenseMatrix A, B, C(NN, NN); fmat a, b, c, r; any_matrix(A, a, NN, MM); any_matrix(B, b, MM, NN);
  verif_may_throw = false;
  mul_dense_dense(A, B, C);
  out_matrix(C, c); ref_mul(a, b, r, NN, MM, NN);
  SQ(i, j) OBL("C24.mul_dense_dense.post.equals_textbook_product", c[i * NN + j] == r[i * NN + j]);
  OBL("C24.mul_dense_dense.post.every_entry_set", all_set(C));
  /* aliasing: C = A * C must still be the product (the code copies through a temporary) */
  DenseMatrix S, Q; fmat s, q, r2, c2; any_matrix(S, s, NN, NN); any_matrix(Q, q, NN, NN);
  mul_dense_dense(S, Q, Q); out_matrix(Q, c2); ref_mul(s, q, r2, NN, NN, NN);
  SQ(i, j) OBL("C24.mul_dense_dense.post.aliased_output", c2[i * NN + j] == r2[i * NN + j]);
  REACHABLE("h_product");
}
extern "C" void h_special(void)
{
  field_init();
  verif_may_throw = false;
  DenseMatrix A; fmat a; any_matrix(A, a, NN, NN);
  bool lo = A.is_lower(), up = A.is_upper(), sy = is_symmetric_dense(A);
  bool rlo = true, rup = true, rsy = true;
  /* symengine's convention, pinned by test_matrix "Test is_lower"/"Test is_upper": is_lower() <=> every entry BELOW the diagonal is zero,
     is_upper() <=> every entry ABOVE the diagonal is zero (the reverse of the textbook names; C24 does not fix the names) */
  SQ(i, j) { if (j < i && a[i * NN + j] != 0) rlo = false; if (j > i && a[i * NN + j] != 0) rup = false; if (a[i * NN + j] != a[j * NN + i]) rsy = false; }
  OBL("C24.is_lower.post.true_iff_all_entries_below_the_diagonal_are_zero", lo == rlo); OBL("C24.is_upper.post.true_iff_all_entries_above_the_diagonal_are_zero", up == rup); OBL("C24.is_symmetric_dense.post", sy == rsy);
  DenseMatrix E(NN, MM), Z(NN, MM), O(NN, MM);
  int k = nondet_int(); __CPROVER_assume(-(int)NN < k && k < (int)MM);
  eye(E, k); zeros(Z); ones(O);
  for (unsigned i = 0; i < NN; i++) for (unsigned j = 0; j < MM; j++) {
    OBL("C24.eye.post.ones_on_the_kth_diagonal_zeros_elsewhere", E.m_.d[i * MM + j].nn && FVAL(E.m_.d[i * MM + j]) == (((int)j - (int)i == k) ? 1 : 0));
    OBL("C24.zeros.post", FVAL(Z.m_.d[i * MM + j]) == 0 && Z.m_.d[i * MM + j].nn); OBL("C24.ones.post", FVAL(O.m_.d[i * MM + j]) == 1);
  }
#if NN == 3
  DenseMatrix U, V, W(1, 3); fmat u, v; any_matrix(U, u, 1, 3); any_matrix(V, v, 1, 3);
  cross(U, V, W);
  OBL("C24.cross.post", FVAL(W.m_.d[0]) == F_SUB(F_MUL(u[1], v[2]), F_MUL(u[2], v[1])) && FVAL(W.m_.d[1]) == F_SUB(F_MUL(u[2], v[0]), F_MUL(u[0], v[2])) && FVAL(W.m_.d[2]) == F_SUB(F_MUL(u[0], v[1]), F_MUL(u[1], v[0])));
#endif
  REACHABLE("h_special");
}
/* ------------------------------------------------------------------ determinant */
extern "C" void h_det(void)
{
  field_init();
  DenseMatrix A; fmat a; any_matrix(A, a, NN, NN);
  verif_may_throw = false;
  RCPBasic d = det_bareis(A);
  OBL("C24.det_bareis.no_division_by_zero", !div_by_zero_flag);
  OBL("C24.det_bareis.post.equals_cofactor_expansion", d.nn && FVAL(d) == ref_det(a));
  REACHABLE("h_det");
}
extern "C" void h_berkowitz(void)
{
  field_init();
  DenseMatrix A, P(NN + 1, 1); fmat a; any_matrix(A, a, NN, NN);
  verif_may_throw = false;
  RCPBasic d = det_berkowitz(A);
  OBL("C24.det_berkowitz.post.equals_cofactor_expansion", d.nn && FVAL(d) == ref_det(a));
  char_poly(A, P);
  /* characteristic polynomial p(x) = x^n + c1 x^(n-1) + ... + cn: monic, c1 = -trace, cn = (-1)^n det, and p(A) = 0 (Cayley-Hamilton) */
  fe_t tr = 0; for (unsigned i = 0; i < NN; i++) tr = F_ADD(tr, a[i * NN + i]);
  OBL("C24.char_poly.post.monic_of_degree_n", P.row_ == NN + 1 && P.col_ == 1 && FVAL(P.m_.d[0]) == 1);
  OBL("C24.char_poly.post.second_coefficient_is_minus_trace", FVAL(P.m_.d[1]) == F_SUB(0, tr));
  OBL("C24.char_poly.post.constant_term_is_plus_minus_det", FVAL(P.m_.d[NN]) == ((NN % 2 == 0) ? ref_det(a) : F_SUB(0, ref_det(a))));
  /* Horner evaluation at A */
  fmat acc, tmp; SQ(i, j) acc[i * NN + j] = (i == j) ? FVAL(P.m_.d[0]) : 0;
  for (unsigned k = 1; k <= NN; k++) { ref_mul(acc, a, tmp, NN, NN, NN); SQ(i, j) acc[i * NN + j] = (i == j) ? F_ADD(tmp[i * NN + j], FVAL(P.m_.d[k])) : tmp[i * NN + j]; }
  SQ(i, j) OBL("C24.char_poly.post.cayley_hamilton_p_of_A_is_zero", acc[i * NN + j] == 0);
  REACHABLE("h_berkowitz");
}
/* ------------------------------------------------------------------ factorisations */
extern "C" void h_lu(void)
{
  field_init();
  DenseMatrix A, L(NN, NN), U(NN, NN); fmat a, l, u, p; any_matrix(A, a, NN, NN);
  verif_may_throw = false;
  LU(A, L, U);
  __CPROVER_assume(!div_by_zero_flag);             /* documented: no pivoting, leading minors non-singular */
  out_matrix(L, l); out_matrix(U, u); ref_mul(l, u, p, NN, NN, NN);
  SQ(i, j) {
    OBL("C24.LU.post.L_times_U_equals_A", p[i * NN + j] == a[i * NN + j]);
    OBL("C24.LU.post.L_unit_lower_U_upper", (j <= i || l[i * NN + j] == 0) && (i != j || l[i * NN + j] == 1) && (j >= i || u[i * NN + j] == 0));
  }
  OBL("C24.LU.post.every_entry_set", all_set(L) && all_set(U));
  REACHABLE("h_lu");
}
extern "C" void h_pivoted_lu(void)
{
  field_init();
  DenseMatrix A, L(NN, NN), U(NN, NN); fmat a, l, u, p, pa; any_matrix(A, a, NN, NN);
  permutelist pl;
  fe_t d = ref_det(a);
  verif_may_throw = (d == 0);                       /* "Matrix is rank deficient" only for singular input */
  pivoted_LU(A, L, U, pl);
  OBL("C24.pivoted_LU.no_division_by_zero", !div_by_zero_flag);
  DenseMatrix PA = A; permuteFwd(PA, pl);
  out_matrix(L, l); out_matrix(U, u); out_matrix(PA, pa); ref_mul(l, u, p, NN, NN, NN);
  SQ(i, j) {
    OBL("C24.pivoted_LU.post.L_times_U_equals_permuted_A", p[i * NN + j] == pa[i * NN + j]);
    OBL("C24.pivoted_LU.post.L_unit_lower_U_upper", (j <= i || l[i * NN + j] == 0) && (i != j || l[i * NN + j] == 1) && (j >= i || u[i * NN + j] == 0));
  }
  REACHABLE("h_pivoted_lu");
}
extern "C" void h_ldl(void)
{
  field_init();
  DenseMatrix A, L(NN, NN), D(NN, NN); fmat a, l, d, lt, t1, t2; any_matrix(A, a, NN, NN);
  SQ(i, j) __CPROVER_assume(a[i * NN + j] == a[j * NN + i]);          /* symmetric */
  verif_may_throw = false;
  LDL(A, L, D);
  __CPROVER_assume(!div_by_zero_flag);
  out_matrix(L, l); out_matrix(D, d);
  SQ(i, j) lt[i * NN + j] = l[j * NN + i];
  ref_mul(l, d, t1, NN, NN, NN); ref_mul(t1, lt, t2, NN, NN, NN);
  SQ(i, j) {
    OBL("C24.LDL.post.L_D_Lt_equals_A", t2[i * NN + j] == a[i * NN + j]);
    OBL("C24.LDL.post.L_unit_lower_D_diagonal", (j <= i || l[i * NN + j] == 0) && (i != j || l[i * NN + j] == 1) && (i == j || d[i * NN + j] == 0));
  }
  REACHABLE("h_ldl");
}
extern "C" void h_ffldu(void)
{
  field_init();
  DenseMatrix A, L(NN, NN), D(NN, NN), U(NN, NN); fmat a, l, d, u, t1, t2; any_matrix(A, a, NN, NN);
  verif_may_throw = false;
  fraction_free_LDU(A, L, D, U);
  __CPROVER_assume(!div_by_zero_flag);
  out_matrix(L, l); out_matrix(D, d); out_matrix(U, u);
  /* A = L * D^-1 * U  <=>  for diagonal D with non-zero entries: (L * D^-1) * U == A */
  bool dz = false; for (unsigned i = 0; i < NN; i++) if (d[i * NN + i] == 0) dz = true;
  __CPROVER_assume(!dz);
  SQ(i, j) t1[i * NN + j] = T_DIV[l[i * NN + j]][d[j * NN + j]];
  ref_mul(t1, u, t2, NN, NN, NN);
  SQ(i, j) {
    OBL("C24.fraction_free_LDU.post.L_Dinv_U_equals_A", t2[i * NN + j] == a[i * NN + j]);
    OBL("C24.fraction_free_LDU.post.shapes", (j <= i || l[i * NN + j] == 0) && (j >= i || u[i * NN + j] == 0) && (i == j || d[i * NN + j] == 0));
  }
  REACHABLE("h_ffldu");
}
/* ------------------------------------------------------------------ solvers: A x = b */
extern "C" bool solution_ok(const fe_t *a, const DenseMatrix &X, const fe_t *b, unsigned sys)
{
  fmat x, r; out_matrix(X, x); ref_mul(a, x, r, NN, NN, sys);
  bool ok = true;
  for (unsigned i = 0; i < NN; i++) for (unsigned k = 0; k < NN; k++) if (k < sys && r[i * sys + k] != b[i * sys + k]) ok = false;
  return ok;
}
#define SOLVER_HARNESS(hname, call, pivoting, oname) \
extern "C" void hname(void) \
{ \
  field_init(); \
  DenseMatrix A, b, x(NN, 1); fmat a, bb; any_matrix(A, a, NN, NN); any_matrix(b, bb, NN, 1); \
  fe_t d = ref_det(a); \
  if (pivoting) { __CPROVER_assume(d != 0); verif_may_throw = false; } else verif_may_throw = false; \
  call; \
  if (pivoting) OBL("C24." oname ".no_division_by_zero_on_nonsingular_input", !div_by_zero_flag); else __CPROVER_assume(!div_by_zero_flag); \
  OBL("C24." oname ".post.A_times_x_equals_b", solution_ok(a, x, bb, 1)); \
  OBL("C24." oname ".post.every_entry_set", all_set(x)); \
  REACHABLE(#hname); \
}
SOLVER_HARNESS(h_solve_lu, LU_solve(A, b, x), 0, "LU_solve")
SOLVER_HARNESS(h_solve_fflu, fraction_free_LU_solve(A, b, x), 0, "fraction_free_LU_solve")
SOLVER_HARNESS(h_solve_plu, pivoted_LU_solve(A, b, x), 1, "pivoted_LU_solve")
SOLVER_HARNESS(h_solve_ffge, fraction_free_gaussian_elimination_solve(A, b, x), 0, "fraction_free_gaussian_elimination_solve")
SOLVER_HARNESS(h_solve_ffgj, fraction_free_gauss_jordan_solve(A, b, x, true), 1, "fraction_free_gauss_jordan_solve")
SOLVER_HARNESS(h_solve_ffgj_nopivot, fraction_free_gauss_jordan_solve(A, b, x, false), 0, "fraction_free_gauss_jordan_solve_without_pivoting")
extern "C" void h_solve_ldl(void)
{
  field_init();
  DenseMatrix A, b, x(NN, 1); fmat a, bb; any_matrix(A, a, NN, NN); any_matrix(b, bb, NN, 1);
  bool sym = true; SQ(i, j) if (a[i * NN + j] != a[j * NN + i]) sym = false;
  verif_may_throw = !sym;                           /* "Matrix must be symmetric" */
  LDL_solve(A, b, x);
  __CPROVER_assume(!div_by_zero_flag);
  OBL("C24.LDL_solve.post.A_times_x_equals_b", solution_ok(a, x, bb, 1));
  REACHABLE("h_solve_ldl");
}
extern "C" void h_solve_triangular(void)
{
  field_init();
  DenseMatrix A, b, x(NN, 1); fmat a, bb; any_matrix(A, a, NN, NN); any_matrix(b, bb, NN, 1);
  verif_may_throw = false;
  int which = nondet_int();
  if (which == 0) { SQ(i, j) if (i != j) __CPROVER_assume(a[i * NN + j] == 0); diagonal_solve(A, b, x); __CPROVER_assume(!div_by_zero_flag); OBL("C24.diagonal_solve.post.A_times_x_equals_b", solution_ok(a, x, bb, 1)); }
  else { SQ(i, j) if (j < i) __CPROVER_assume(a[i * NN + j] == 0); back_substitution(A, b, x); __CPROVER_assume(!div_by_zero_flag); OBL("C24.back_substitution.post.U_times_x_equals_b", solution_ok(a, x, bb, 1)); }
  REACHABLE("h_solve_triangular");
}
/* ------------------------------------------------------------------ inverses: A * B = I */
#define INVERSE_HARNESS(hname, call, pivoting, oname) \
extern "C" void hname(void) \
{ \
  field_init(); \
  DenseMatrix A, B(NN, NN); fmat a, b, p; any_matrix(A, a, NN, NN); \
  fe_t d = ref_det(a); \
  verif_may_throw = false; \
  if (pivoting) __CPROVER_assume(d != 0); \
  call; \
  if (pivoting) OBL("C24." oname ".no_division_by_zero_on_nonsingular_input", !div_by_zero_flag); else __CPROVER_assume(!div_by_zero_flag); \
  out_matrix(B, b); ref_mul(a, b, p, NN, NN, NN); \
  SQ(i, j) OBL("C24." oname ".post.A_times_inverse_is_identity", p[i * NN + j] == (i == j ? 1 : 0)); \
  REACHABLE(#hname); \
}
INVERSE_HARNESS(h_inv_lu, inverse_LU(A, B), 0, "inverse_LU")
INVERSE_HARNESS(h_inv_fflu, inverse_fraction_free_LU(A, B), 0, "inverse_fraction_free_LU")
INVERSE_HARNESS(h_inv_plu, inverse_pivoted_LU(A, B), 1, "inverse_pivoted_LU")
INVERSE_HARNESS(h_inv_gj, inverse_gauss_jordan(A, B), 1, "inverse_gauss_jordan")
/* ------------------------------------------------------------------ echelon forms
   row-equivalence is stated through the null space: for an arbitrary vector v, A v = 0 <=> B v = 0 (equal null
   spaces <=> equal row spaces); together with the echelon shape this pins the result. */
extern "C" bool kills(const fe_t *m, const fe_t *v, unsigned rows, unsigned cols)
{
  bool z = true;
  for (unsigned i = 0; i < NN; i++) if (i < rows) { fe_t s = 0; for (unsigned j = 0; j < MM; j++) if (j < cols) s = F_ADD(s, F_MUL(m[i * cols + j], v[j])); if (s != 0) z = false; }
  return z;
}
extern "C" void h_rref(void)
{
  field_init();
  DenseMatrix A, B(NN, MM); fmat a, b; any_matrix(A, a, NN, MM);
  vec_uint piv; bool normalize_last = nondet_boolean();
  verif_may_throw = false;
  reduced_row_echelon_form(A, B, piv, normalize_last);
  OBL("C24.reduced_row_echelon_form.no_division_by_zero", !div_by_zero_flag);
  out_matrix(B, b);
  fe_t v[CAP]; any_vec(v);
  OBL("C24.reduced_row_echelon_form.post.row_equivalent_same_null_space", kills(a, v, NN, MM) == kills(b, v, NN, MM));
  /* shape: pivot columns strictly increasing; row r has its leading 1 in column piv[r], zeros elsewhere in that column; rows beyond the rank are zero */
  OBL("C24.reduced_row_echelon_form.post.rank_at_most_min", piv.n <= NN && piv.n <= MM);
  for (unsigned r = 0; r < NN; r++) {
    if (r < piv.n) {
      unsigned pc = piv.d[r];
      OBL("C24.reduced_row_echelon_form.post.pivot_columns_increasing", pc < MM && (r == 0 || piv.d[r - 1] < pc));
      for (unsigned j = 0; j < MM; j++) if (j < pc) OBL("C24.reduced_row_echelon_form.post.zeros_left_of_pivot", b[r * MM + j] == 0);
      OBL("C24.reduced_row_echelon_form.post.leading_one", b[r * MM + (pc < MM ? pc : 0)] == 1);
      for (unsigned i = 0; i < NN; i++) if (i != r) OBL("C24.reduced_row_echelon_form.post.pivot_column_otherwise_zero", b[i * MM + (pc < MM ? pc : 0)] == 0);
    } else for (unsigned j = 0; j < MM; j++) OBL("C24.reduced_row_echelon_form.post.rows_beyond_rank_are_zero", b[r * MM + j] == 0);
  }
  REACHABLE("h_rref");
}
extern "C" void h_elimination(void)
{
  field_init();
  DenseMatrix A, B(NN, MM); fmat a, b; any_matrix(A, a, NN, MM);
  permutelist pl;
  verif_may_throw = false;
  int which = nondet_int(); __CPROVER_assume(which >= 0 && which <= 3);
  if (which == 0) pivoted_gaussian_elimination(A, B, pl);
  else if (which == 1) pivoted_fraction_free_gaussian_elimination(A, B, pl);
  else if (which == 2) pivoted_gauss_jordan_elimination(A, B, pl);
  else pivoted_fraction_free_gauss_jordan_elimination(A, B, pl);
  OBL("C24.pivoted_elimination.no_division_by_zero", !div_by_zero_flag);
  out_matrix(B, b);
  fe_t v[CAP]; any_vec(v);
  OBL("C24.pivoted_elimination.post.row_equivalent_same_null_space", kills(a, v, NN, MM) == kills(b, v, NN, MM));
  /* echelon: the leading entry of each row is strictly to the right of the one above; zero rows at the bottom */
  /* the two Gaussian-elimination variants treat the last column as the right-hand side of an augmented system (loop to col - 1) */
  unsigned cols = which <= 1 ? MM - 1 : MM;
  unsigned prev = 0; bool have_prev = false, seen_zero_row = false, echelon = true;
  for (unsigned r = 0; r < NN; r++) {
    unsigned lead = MM; for (unsigned j = MM; j-- > 0;) if (j < cols && b[r * MM + j] != 0) lead = j;
    if (lead == MM) seen_zero_row = true;
    else { if (seen_zero_row) echelon = false; if (have_prev && lead <= prev) echelon = false; prev = lead; have_prev = true; }
  }
  OBL("C24.pivoted_elimination.post.result_is_in_row_echelon_form", echelon);
  REACHABLE("h_elimination");
}

from vf import Unit, Entry, Piece, R

META = {"level": "model_checking"}
DM = 'symengine/dense_matrix.cpp'
TOK = [R('RCP<const Basic>', 'RCPBasic', n='*', why="RCP<const Basic> -> field element (prelude/field.h)"),
       R('std::vector<unsigned>', 'uvec_d', n='*', why="std::vector<unsigned> -> fixed-capacity stub with bound-asserting accessors"),
       R(r'throw (\w+)\(((?:[^;()"]|"[^"]*"|\([^()]*\))*)\);', r'VERIF_THROW(\1);', n='*', regex=True, why="exception object dropped (DESIGN §8)"),
       R(r'pl\.push_back\(\{([^{}]*?),\s*([^{}]*?)\}\)', r'pl.push_back(mk_pair(\1, \2))', n='*', regex=True, why="braced-init-list argument -> explicit pair constructor")]
AUTO_THIS = [R('auto A = *this;', 'DenseMatrix A = *this;', n=1, why="auto -> the deduced type")]
RANGEFOR = [R('for (auto &p : pl)', 'for (unsigned p__k = 0; p__k < pl.size(); p__k++) for (bool p__once = true; p__once; p__once = false) for (pl_pair p = pl.at(p__k); p__once; p__once = false)', n=1,
              why="range-for over the permutation list -> index loop; the two single-iteration loops only scope the loop variable, so the body (braced or not) stays verbatim")]

FREE = ['conjugate_dense', 'transpose_dense', 'conjugate_transpose_dense', 'submatrix_dense', 'add_dense_dense', 'add_dense_scalar', 'mul_dense_dense',
        'elementwise_mul_dense_dense', 'mul_dense_scalar', 'row_exchange_dense', 'row_mul_scalar_dense', 'row_add_row_dense', 'column_exchange_dense',
        'pivoted_gaussian_elimination', 'fraction_free_gaussian_elimination', 'pivoted_fraction_free_gaussian_elimination', 'pivoted_gauss_jordan_elimination',
        'fraction_free_gauss_jordan_elimination', 'pivoted_fraction_free_gauss_jordan_elimination', 'pivot', 'reduced_row_echelon_form', 'diagonal_solve',
        'back_substitution', 'forward_substitution', 'fraction_free_gaussian_elimination_solve', 'fraction_free_gauss_jordan_solve', 'fraction_free_LU_solve',
        'LU_solve', 'pivoted_LU_solve', 'LDL_solve', 'fraction_free_LU', 'LU', 'fraction_free_LDU', 'LDL', 'is_symmetric_dense', 'det_bareis',
        'inverse_fraction_free_LU', 'inverse_LU', 'inverse_pivoted_LU', 'inverse_gauss_jordan', 'cross', 'eye', 'diag', 'ones', 'zeros']

def pieces():
    ps = []
    for m in ('resize', 'row_join', 'col_join', 'row_insert', 'col_insert', 'row_del', 'col_del'):
        ps.append(Piece(DM, r'void DenseMatrix::%s\(' % m, rules=TOK))
    ps.append(Piece(DM, r'RCP<const Basic> DenseMatrix::get\(unsigned i, unsigned j\) const', rules=TOK))
    ps.append(Piece(DM, r'void DenseMatrix::set\(unsigned i, unsigned j, const RCP<const Basic> &e\)', rules=TOK))
    ps.append(Piece(DM, r'bool DenseMatrix::is_lower\(\) const', rules=AUTO_THIS + TOK))
    ps.append(Piece(DM, r'bool DenseMatrix::is_upper\(\) const', rules=AUTO_THIS + TOK))
    ps.append(Piece(DM, r'void permuteFwd\(DenseMatrix &A, permutelist &pl\)', rules=RANGEFOR + TOK))
    TERN = {'LDL': [R('L.m_[i * col + j] = (i != j) ? zero : one;', 'L.m_[i * col + j] = sel_rcp((i != j), zero, one);', n=1,
                      why="conditional expression over class-type lvalues crashes CBMC's symex (address_arithmetic invariant): same selection through a helper function")]}
    for f in FREE:
        ret = 'RCP<const Basic>' if f == 'det_bareis' else ('unsigned' if f == 'pivot' else ('bool' if f == 'is_symmetric_dense' else 'void'))
        ps.append(Piece(DM, r'%s %s\(' % (ret, f), rules=TERN.get(f, []) + TOK))
    BK = [R('std::vector<DenseMatrix>', 'dm_vector', n='*', why="std::vector<DenseMatrix> -> fixed-capacity stub"),
          R('std::vector<RCPBasic>', 'vec_basic', n='*', why="std::vector<RCP<const Basic>> is vec_basic")]
    ps.append(Piece(DM, r'void berkowitz\(const DenseMatrix &A, std::vector<DenseMatrix> &polys\)',
                    rules=[R('RCP<const Basic>', 'RCPBasic', n='*'), R('DenseMatrix(2, 1, {one, mul(A.m_[0], minus_one)})', 'DenseMatrix(2, 1, mk_vec2(one, mul(A.m_[0], minus_one)))', n=1,
                             why="braced-init-list argument -> explicit two-element vector")] + BK + [r for r in TOK if r.pat != 'RCP<const Basic>']))
    ps.append(Piece(DM, r'RCP<const Basic> det_berkowitz\(const DenseMatrix &A\)', rules=[R('RCP<const Basic>', 'RCPBasic', n='*')] + BK + [r for r in TOK if r.pat != 'RCP<const Basic>']))
    ps.append(Piece(DM, r'void char_poly\(const DenseMatrix &A, DenseMatrix &B\)', rules=BK + TOK))
    ps.append(Piece(DM, r'void pivoted_LU\(const DenseMatrix &A, DenseMatrix &LU, permutelist &pl\)', rules=TOK))
    ps.append(Piece(DM, r'void pivoted_LU\(const DenseMatrix &A, DenseMatrix &L, DenseMatrix &U,', rules=TOK))
    return {'dense.inc': ps}

ALL = ['h_berkowitz', 'h_entrywise', 'h_rowcol_ops', 'h_submatrix_insert_delete', 'h_product', 'h_special', 'h_det', 'h_lu', 'h_pivoted_lu', 'h_ldl', 'h_ffldu',
       'h_solve_lu', 'h_solve_fflu', 'h_solve_plu', 'h_solve_ffge', 'h_solve_ffgj', 'h_solve_ffgj_nopivot', 'h_solve_ldl', 'h_solve_triangular',
       'h_inv_lu', 'h_inv_fflu', 'h_inv_plu', 'h_inv_gj', 'h_rref', 'h_elimination']

def units(tier):
    ents = []
    BIG = {'h_special': 14, 'h_inv_fflu': 0, 'h_ffldu': 0, 'h_berkowitz': 0, 'h_submatrix_insert_delete': 0}       # the last one: so that a flat rewrite of the shifting loops still fits the bound       # routines with loops over row*col entries
    def add(h, p, n, m=None, timeout=900):
        d = {'FP': p, 'NN': n, 'CAP': 16}
        if m is not None:
            d['MM'] = m
        mm = m if m is not None else n
        uw = max(n, mm) + 2
        if h in BIG:
            uw = max(uw, n * mm + 2, (n * (n + 1) + 2) if h == 'h_berkowitz' else 0)
        shape = "%dx%d" % (n, mm)
        us = ['%s.0:17' % f for f in ('any_matrix', 'any_vec', 'out_matrix', 'all_set', 'vb_fill', 'vb_shift_up', 'vb_shift_down', 'uvd_fill')]
        ents.append(Entry(h, defines=d, route='B', timeout=timeout if tier == 'quick' else 4 * timeout, mem_gb=8, unwind=uw, unwindset=us,
                          bounds="%s matrices, every entry symbolic over GF(%d); loops unwound %d (stub copy loops 17) with unwinding assertions" % (shape, p, uw)))
    SLOW = ('h_inv_plu', 'h_solve_plu')              # > 5 min at 3x3: thorough tier only
    for h in ALL:
        if tier == 'quick' and h in SLOW:
            continue
        add(h, 3, 3, 3 if h in ('h_rref', 'h_elimination') else None)
    add('h_ldl', 3, 4); add('h_solve_ldl', 3, 4); add('h_lu', 3, 4); add('h_entrywise', 3, 2, 3); add('h_rowcol_ops', 3, 3, 4)
    if tier == 'thorough':
        add('h_rref', 3, 3, 4, timeout=1500); add('h_elimination', 3, 3, 4, timeout=1500); add('h_submatrix_insert_delete', 3, 3, 4)
    if tier == 'thorough':
        for h in ALL:
            if h not in ('h_entrywise', 'h_rowcol_ops', 'h_submatrix_insert_delete', 'h_special'):
                add(h, 5, 3, 3 if h in ('h_rref', 'h_elimination') else None, timeout=1500)      # 3x4 over GF(5): no verdict in 6000 s for rref/elimination (measured), so 3x3
        for h in ('h_det', 'h_pivoted_lu', 'h_solve_lu', 'h_solve_plu', 'h_solve_ffgj', 'h_inv_lu', 'h_inv_gj', 'h_solve_ffge', 'h_ffldu', 'h_product'):
            add(h, 3, 4, timeout=1500)
        add('h_rref', 3, 4, 3, timeout=1500); add('h_elimination', 3, 4, 3, timeout=1500)
    u = Unit('dense', 'C24', 'contracts/C24/dense.cpp', pieces(), ents, route='B',
             trusted=["field prelude prelude/field.h: exact-number arithmetic of symengine implements a field; checked over GF(3) (GF(5) thorough)",
                      "contracts/C24/dense_prelude.h: vec_basic / permutelist / vec_uint stubs; DenseMatrix::mul_scalar/transpose forward to the extracted free functions "
                      "(the real members add an is_a<DenseMatrix> test and a down_cast); pow(x, 2) = x*x; conjugate/expand are the identity on exact real numbers"],
             assumptions=["QR, cholesky (square roots), eigen_values, jacobian/diff (symbolic), Gaussian-rational "
                          "entries, everything beyond the stated sizes, rank (not implemented in the code) are not covered",
                          "executions that divide by the field's zero are excluded for the routines without pivoting (documented non-singular leading minors)"])
    return [u]

def replay_args(obl, inputs, res):
    import re
    e = res.get("_e")
    d = e.defines if e else res.get("defines", {})
    norm = {}
    for k, v in inputs.items():
        k2 = re.sub(r'\[(\d+)l\]', r'[\1]', k)
        if re.match(r'^(a|bb|b|s|q|u|v)\[\d+\]$|^(which|i|j|c|k|pos|r0|r1|c0|c1|normalize_last)$', k2) and 'data' in v:
            norm[k2] = re.sub(r'[ul]+$', '', v['data'])
    return [obl, "NN=%s" % d.get('NN', 3), "MM=%s" % d.get('MM', d.get('NN', 3)), "FP=%s" % d.get('FP', 3)] + ["%s=%s" % kv for kv in sorted(norm.items()) if kv[1].lstrip('-').isdigit() or kv[1] in ('TRUE', 'FALSE')]

import sys, os
sys.path.insert(0, os.path.join(os.path.dirname(__file__), '..', 'common'))
from vf import Unit, Entry, Piece, R
import ghost_pieces as G

META = {"level": "proof"}
LG = 'symengine/logic.cpp'
B2 = r'\(const RCP<const Basic> &lhs, const RCP<const Basic> &rhs\)'

def _pred_unit(prop):
    import importlib.util
    spec = importlib.util.spec_from_file_location('units_C06_for_' + prop, os.path.join(os.path.dirname(__file__), '..', 'C06', 'units.py'))
    m = importlib.util.module_from_spec(spec); spec.loader.exec_module(m)
    return m.pred_unit(prop)

def units(tier):
    rel = [Piece(LG, r'RCP<const Boolean> %s%s' % (f, B2), rules=G.TOK) for f in ('Eq', 'Ne', 'Le', 'Ge', 'Lt', 'Gt')]
    LN = lambda c: Piece(LG, r'RCP<const Boolean> %s::logical_not\(\) const' % c,
                         rules=[R('RCP<const Boolean> %s::logical_not() const' % c, 'RCPBasic Basic::logical_not_%s() const' % c, n=1, why="every stub class is the one ghost struct: member of class %s -> distinctly named member" % c)] + G.TOK)
    rel += [LN(c) for c in ('Equality', 'Unequality', 'LessThan', 'StrictLessThan')]
    b = "full domain of the ghost model: every kind pair, ghost values 2*value in [-1000,1000] (bounded only to keep v-w in int range)"
    ents = [Entry('h_order_numbers', timeout=600, bounds=b, mem_gb=6, unwind=4), Entry('h_eq_ne', timeout=600, bounds=b, mem_gb=6, unwind=4), Entry('h_order_any', timeout=600, bounds=b, mem_gb=6, unwind=4), Entry('h_logical_not', timeout=300, bounds=b, unwind=4)]
    u = Unit('relationals', 'C29', 'contracts/C29/rel.cpp',
             {'infty_inline.inc': G.infty_inline_pieces(), 'free.inc': G.common_free_pieces(), 'rel.inc': G.infty_pred_pieces() + rel},
             ents, route='F', trusted=G.TRUSTED + ["Basic::__cmp__ is a strict total order consistent with eq (property C02, assumed here)"],
             assumptions=["'relationals on symbolic arguments become correct once numbers are substituted' is not covered (needs subs)",
                          "RealDouble operands are finite (NaN/inf doubles excluded); Integer -> double conversion exact"])
    return [u, _pred_unit('C29')]

def replay_args(obl, inputs, res):
    if '.predicates.' in obl:
        return [obl] + (['D.i=%s' % inputs['D.i'].get('binary')] if 'D.i' in inputs else [])
    keep = ('a_type', 'a_cls', 'a_v', 'a_bval', 'b_type', 'b_cls', 'b_v', 'b_bval', 'which')
    return [obl] + ["%s=%s" % (k, v.get("binary") or v.get("data")) for k, v in sorted(inputs.items()) if k in keep]

/* Route F: the relational constructors of symengine/logic.cpp (rel.inc, extracted) against the
   ghost-number contracts.  The postconditions are the sentences of property C29. */
#define GHOST_BASIC_EXTRA RCPBasic logical_not_Equality() const; RCPBasic logical_not_Unequality() const; RCPBasic logical_not_LessThan() const; RCPBasic logical_not_StrictLessThan() const;
#include "ghostnum.h"
GHOSTNUM_GLOBALS
struct SymEngineException {}; struct NotImplementedError {};
#include "free.inc"
RCPBasic Eq(const RCPBasic &lhs, const RCPBasic &rhs);
RCPBasic Le(const RCPBasic &lhs, const RCPBasic &rhs);
RCPBasic Lt(const RCPBasic &lhs, const RCPBasic &rhs);
inline RCPBasic Basic::sub(const Basic &o) const { return g_sub(o); }   /* assumed contract of Number::sub */
#include "rel.inc"

/* an arbitrary operand: any number kind, a BooleanAtom, or a symbolic (non-number) expression;
   'slot' is harness-owned storage for the kinds that are not library constants */
static RCPBasic operand(Basic *slot, bool real_only)
{
  int k = nondet_int();
  int v = nondet_int(); __CPROVER_assume(v >= -1000 && v <= 1000);
  if (real_only) __CPROVER_assume(k >= 0 && k <= 4); else __CPROVER_assume(k >= 0 && k <= 9);
  slot->inf_ = &g_noinf; slot->nan_ = &g_nonan; slot->arg1 = &g_none; slot->arg2 = &g_none; slot->bval = false; slot->v = v;
  switch (k) {
    case 0: __CPROVER_assume(v % 2 == 0); slot->type_code_ = SYMENGINE_INTEGER; slot->cls = G_FIN; break;
    case 1: __CPROVER_assume(v % 2 != 0); slot->type_code_ = SYMENGINE_RATIONAL; slot->cls = G_FIN; break;   /* a half */
    case 2: slot->type_code_ = SYMENGINE_REAL_DOUBLE; slot->cls = G_FIN; break;
    case 3: return Inf;
    case 4: return NegInf;
    case 5: return ComplexInf;
    case 6: return Nan;
    case 7: slot->type_code_ = nondet_boolean() ? SYMENGINE_COMPLEX : SYMENGINE_COMPLEX_DOUBLE; slot->cls = G_CPLX; break;
    case 8: return boolean(nondet_boolean());
    default: slot->type_code_ = SYMENGINE_SYMBOL; slot->cls = G_NONNUM; break;    /* symbolic */
  }
  g_setid(slot);
  return slot;
}
static bool is_real_number(RCPBasic x) { return x->cls == G_FIN || x->cls == G_PINF || x->cls == G_NINF; }
static bool forbidden(RCPBasic x) { return x->cls == G_CPLX || x->cls == G_NANV || x->cls == G_ZOO || x->type_code_ == SYMENGINE_BOOLEAN_ATOM; }
static bool is_true_atom(RCPBasic r) { return r->type_code_ == SYMENGINE_BOOLEAN_ATOM && r->bval; }
static bool is_false_atom(RCPBasic r) { return r->type_code_ == SYMENGINE_BOOLEAN_ATOM && !r->bval; }
/* the operand description is copied into scalars so that it shows up in counterexample traces */
#define WITNESS(a, b) int a_type = (a)->type_code_, a_cls = (a)->cls, a_v = (a)->v, a_bval = (a)->bval, \
                          b_type = (b)->type_code_, b_cls = (b)->cls, b_v = (b)->v, b_bval = (b)->bval
#define TRUTH(r, c) ((c) ? is_true_atom(r) : is_false_atom(r))

/* ---- C29, first sentence: for two real numbers of any kinds the four order relations are exact */
extern "C" void h_order_numbers(void)
{
  g_init_constants();
  Basic SA, SB; RCPBasic a = operand(&SA, true), b = operand(&SB, true);
  WITNESS(a, b);
  verif_may_throw = false;                       /* real operands never throw */
  g_region(0); RCPBasic le = Le(a, b); g_region(1); RCPBasic lt = Lt(a, b); g_region(2); RCPBasic ge = Ge(a, b);
  g_region(3); RCPBasic gt = Gt(a, b); g_region(4); RCPBasic ltba = Lt(b, a); g_region(5); RCPBasic leba = Le(b, a);
  OBL("C29.Le.post.true_exactly_when_a_le_b", TRUTH(le, g_le(*a, *b)));
  OBL("C29.Lt.post.true_exactly_when_a_lt_b", TRUTH(lt, g_lt(*a, *b)));
  OBL("C29.Ge.post.true_exactly_when_a_ge_b", TRUTH(ge, g_le(*b, *a)));
  OBL("C29.Gt.post.true_exactly_when_a_gt_b", TRUTH(gt, g_lt(*b, *a)));
  OBL("C29.lemma.Le_is_not_Lt_swapped", is_true_atom(le) == is_false_atom(ltba) && is_false_atom(le) == is_true_atom(ltba));
  OBL("C29.lemma.Ge_is_Le_swapped", is_true_atom(ge) == is_true_atom(leba) && is_false_atom(ge) == is_false_atom(leba));
  REACHABLE("h_order_numbers");
}
/* ---- Eq / Ne on any two numbers or booleans: symmetric, negations of each other, decided */
extern "C" void h_eq_ne(void)
{
  g_init_constants();
  Basic SA, SB; RCPBasic a = operand(&SA, false), b = operand(&SB, false);
  WITNESS(a, b);
  verif_may_throw = false;
  g_region(0); RCPBasic e1 = Eq(a, b); g_region(1); RCPBasic e2 = Eq(b, a); g_region(2); RCPBasic n1 = Ne(a, b); g_region(3); RCPBasic n2 = Ne(b, a);
  bool both_num = is_a_Number(*a) && is_a_Number(*b);
  bool both_bool = a->type_code_ == SYMENGINE_BOOLEAN_ATOM && b->type_code_ == SYMENGINE_BOOLEAN_ATOM;
  if (both_num || both_bool) {
    OBL("C29.Eq.post.decided_for_numbers", e1->type_code_ == SYMENGINE_BOOLEAN_ATOM);
    OBL("C29.Eq.post.symmetric", e1->type_code_ == SYMENGINE_BOOLEAN_ATOM && e2->type_code_ == SYMENGINE_BOOLEAN_ATOM && e1->bval == e2->bval);
    OBL("C29.Ne.post.negation_of_Eq", n1->type_code_ == SYMENGINE_BOOLEAN_ATOM && n1->bval == !e1->bval);
    OBL("C29.Ne.post.symmetric", n2->type_code_ == SYMENGINE_BOOLEAN_ATOM && n1->bval == n2->bval);
    OBL("C29.Eq.post.true_for_identical_non_nan", !(a->id == b->id && a->cls != G_NANV) || is_true_atom(e1));
    OBL("C29.Eq.post.false_when_nan", !(a->cls == G_NANV || b->cls == G_NANV) || is_false_atom(e1));
  } else {
    /* symbolic: an unevaluated relation, the same object content for both argument orders */
    if (e1->type_code_ != SYMENGINE_BOOLEAN_ATOM) {
      OBL("C29.Eq.post.symbolic_is_Equality", e1->type_code_ == SYMENGINE_EQUALITY && e2->type_code_ == SYMENGINE_EQUALITY);
      OBL("C29.Eq.post.symbolic_symmetric", e1->arg1->id == e2->arg1->id && e1->arg2->id == e2->arg2->id);
      OBL("C29.Eq.post.symbolic_keeps_operands", (e1->arg1->id == a->id && e1->arg2->id == b->id) || (e1->arg1->id == b->id && e1->arg2->id == a->id));
      OBL("C29.Ne.post.symbolic_is_Unequality", n1->type_code_ == SYMENGINE_UNEQUALITY && n2->type_code_ == SYMENGINE_UNEQUALITY);
      OBL("C29.Ne.post.symbolic_symmetric", n1->arg1->id == n2->arg1->id && n1->arg2->id == n2->arg2->id);
      OBL("C29.Ne.post.symbolic_same_operands_as_Eq", n1->arg1->id == e1->arg1->id && n1->arg2->id == e1->arg2->id);
    } else {
      OBL("C29.Ne.post.negation_of_Eq_symbolic", n1->type_code_ == SYMENGINE_BOOLEAN_ATOM && n1->bval == !e1->bval);
    }
  }
  REACHABLE("h_eq_ne");
}
/* ---- order relations on arbitrary operands: complex / nan / zoo / Boolean operands are rejected,
        symbolic operands give the relation with the operands in the stated order */
extern "C" void h_order_any(void)
{
  g_init_constants();
  Basic SA, SB; RCPBasic a = operand(&SA, false), b = operand(&SB, false);
  WITNESS(a, b);
  bool bad = forbidden(a) || forbidden(b);
  verif_may_throw = bad;
  int which = nondet_int(); __CPROVER_assume(which >= 0 && which <= 3);
  g_region(0);
  RCPBasic r = which == 0 ? Le(a, b) : which == 1 ? Lt(a, b) : which == 2 ? Ge(a, b) : Gt(a, b);
  OBL("C29.order.post.invalid_operands_rejected", !bad);        /* reaching here means no exception was raised */
  if (!(is_real_number(a) && is_real_number(b)) && r->type_code_ != SYMENGINE_BOOLEAN_ATOM) {
    RCPBasic x = (which <= 1) ? a : b, y = (which <= 1) ? b : a;
    OBL("C29.order.post.symbolic_relation_kind", r->type_code_ == ((which == 0 || which == 2) ? SYMENGINE_LESSTHAN : SYMENGINE_STRICTLESSTHAN));
    OBL("C29.order.post.symbolic_operand_order", r->arg1->id == x->id && r->arg2->id == y->id);
  }
  if (!(is_real_number(a) && is_real_number(b)) && r->type_code_ == SYMENGINE_BOOLEAN_ATOM) {
    /* a definite answer on a symbolic operand is only sound for identical operands */
    OBL("C29.order.post.symbolic_definite_only_if_identical", a->id == b->id && r->bval == (which == 0 || which == 2));
  }
  REACHABLE("h_order_any");
}

/* ---- negation of the relational objects: not(a == b) is a != b, not(a <= b) is b < a, not(a < b) is b <= a (operands swapped) */
extern "C" void h_logical_not(void)
{
  g_init_constants();
  Basic SA, SB; RCPBasic a = operand(&SA, false), b = operand(&SB, false);
  WITNESS(a, b);
  verif_may_throw = false;
  int which = nondet_int(); __CPROVER_assume(which >= 0 && which <= 3);
  g_region(0);
  RCPBasic r = which == 0 ? mk_Equality(a, b) : which == 1 ? mk_Unequality(a, b) : which == 2 ? mk_LessThan(a, b) : mk_StrictLessThan(a, b);
  g_region(1);
  RCPBasic n = which == 0 ? r->logical_not_Equality() : which == 1 ? r->logical_not_Unequality() : which == 2 ? r->logical_not_LessThan() : r->logical_not_StrictLessThan();
  OBL("C29.logical_not.post.negated_relation_kind", n->type_code_ == (which == 0 ? SYMENGINE_UNEQUALITY : which == 1 ? SYMENGINE_EQUALITY : which == 2 ? SYMENGINE_STRICTLESSTHAN : SYMENGINE_LESSTHAN));
  OBL("C29.logical_not.post.operands_kept_for_eq_ne_swapped_for_order", which <= 1 ? (n->arg1->id == a->id && n->arg2->id == b->id) : (n->arg1->id == b->id && n->arg2->id == a->id));
  REACHABLE("h_logical_not");
}

from vf import Unit, Entry, Piece, R

META = {"level": "model_checking"}
FD = 'symengine/finitediff.cpp'
TOK = [R('RCP<const Basic>', 'RCPBasic', n='*', why="RCP<const Basic> -> field element (prelude/field.h)"),
       R('numeric_cast<unsigned>(', 'numeric_cast_unsigned(', n=1, why="template syntax; identity on an in-range size")]

def units(tier):
    grid = [(5, 3, 0), (5, 3, 1), (5, 3, 2), (5, 4, 2), (7, 4, 2), (5, 4, 3)]      # max_deriv 0 and 1 are corner cases of the inner loops
    if tier == 'thorough':
        grid += [(7, 5, 2), (7, 4, 3), (7, 5, 3), (7, 6, 2)]
    ents = []
    for p, ln, md in grid:
        cap = 16 if ln * (md + 1) <= 16 else 20
        uw = ['%s.0:%d' % (f, cap + 1) for f in ('vb_fill', 'vb_shift_up', 'vb_shift_down')]
        ents.append(Entry('h_fdiff', defines={'FP': p, 'LEN': ln, 'MD': md, 'CAP': cap}, route='B', timeout=900 if tier == 'quick' else 3000, mem_gb=6, unwindset=uw,
                          unwind=ln * (md + 1) + 2, bounds="grid of %d pairwise distinct points and any centre over GF(%d), max_deriv = %d" % (ln, p, md)))
    ents.append(Entry('h_fdiff_second_call', defines={'FP': 5, 'LEN': 3, 'MD': 2, 'CAP': 16}, route='B', timeout=900, mem_gb=6, unwind=11, unwindset=['vb_fill.0:17', 'vb_shift_up.0:17', 'vb_shift_down.0:17'],
                      bounds="two consecutive calls on grids of 3 distinct points over GF(5), max_deriv = 2"))
    u = Unit('fdiff', 'C38', 'contracts/C38/fdiff.cpp', {'fd.inc': [Piece(FD, r'vec_basic generate_fdiff_weights_vector\(const vec_basic &grid,', rules=TOK)]},
             ents, route='B',
             trusted=["field prelude prelude/field.h: exact-number arithmetic of symengine (add/sub/mul/div/integer) implements a field; checked over GF(p), p in {5,7}",
                      "vec_basic stub (fixed capacity, bound-asserting accessors)"],
             assumptions=["grids larger than the bound, symbolic grid points and rational points whose differences vanish mod p are not covered",
                          "max_deriv < p so that k! is invertible"])
    return [u]

def replay_args(obl, inputs, res):
    import re
    e = res.get("_e")
    d = e.defines if e else res.get("defines", {})
    args = [obl, "LEN=%s" % d.get('LEN', 4), "MD=%s" % d.get('MD', 2)]
    for k, v in inputs.items():
        m = re.match(r'^g\[(\d+)l?\]$', k)
        if m:
            args.append("g%s=%s" % (m.group(1), v.get("data", "0").rstrip('ul')))
    if 'c' in inputs:
        args.append("c=%s" % inputs['c'].get("data", "0").rstrip('ul'))
    return args

/* C38 route B: the real generate_fdiff_weights_vector (fd.inc) over GF(FP) (prelude/field.h).
   Postcondition = the property statement on the monomial basis (x - c)^m, m < LEN, of the polynomials of degree < LEN:
       sum_i w[i + k*LEN] * (g_i - c)^m  ==  k!  if m == k  else 0          for every k <= MD.               */
#include "field.h"
FIELD_GLOBALS
inline unsigned numeric_cast_unsigned(unsigned x) { return x; }
#include "fd.inc"
extern "C" fe_t fpow(fe_t b, unsigned e) { fe_t r = 1; for (unsigned i = 0; i < LEN; i++) if (i < e) r = T_MUL[r][b]; return r; }
static void one_call(bool first);
extern "C" void h_fdiff(void) { field_init(); one_call(true); REACHABLE("h_fdiff"); }
/* the function is a pure function of its arguments: a second call of the same shape, after an arbitrary first one, is judged alone */
extern "C" void h_fdiff_second_call(void) { field_init(); one_call(true); one_call(false); REACHABLE("h_fdiff_second_call"); }
static void one_call(bool first)
{
  const unsigned len = LEN, md = MD;
  fe_t g[LEN], c = nondet_fe();
  vec_basic grid(len);
  for (unsigned i = 0; i < LEN; i++) { g[i] = nondet_fe(); grid.d[i] = mkr(g[i]); }
  for (unsigned i = 0; i < LEN; i++) for (unsigned j = i + 1; j < LEN; j++) __CPROVER_assume(g[i] != g[j]);   /* distinct grid points (mod p) */
  verif_may_throw = false;
  vec_basic w = generate_fdiff_weights_vector(grid, md, mkr(c));
  OBL("C38.fdiff.no_division_by_zero_on_a_distinct_grid", !div_by_zero_flag);
  OBL("C38.fdiff.post.size_is_len_times_orders", w.size() == len * (md + 1));
  static const fe_t FACT[5] = {1 % FP, 1 % FP, 2 % FP, 6 % FP, 24 % FP};
  for (unsigned k = 0; k <= MD; k++)
    for (unsigned m = 0; m < LEN; m++) {
      fe_t s = 0;
      for (unsigned i = 0; i < LEN; i++) { OBL("C38.fdiff.post.every_weight_is_set", w.d[i + k * LEN].nn); s = T_ADD[s][T_MUL[FVAL(w.d[i + k * LEN])][fpow(T_SUB[g[i]][c], m)]]; }
      OBL("C38.fdiff.post.order_k_weights_differentiate_the_monomial_basis_exactly", s == (m == k ? FACT[k] : 0));
    }
}

/* C01, multivariate polynomials (the case the property statement singles out: constant polynomials over different variable sets).
   Real text: MSymEnginePoly<Container, Poly>::__eq__ (msymenginepoly.h, in-class, instantiated for MIntPoly) and
   MIntPoly::__hash__ (msymenginepoly.cpp), MSymEnginePoly::is_constant.  Route B: polynomials with at most 2 terms in at most 2 variables.
   Stubs (assumed contracts): the variable set is a sorted list of variable ids (set_basic ordered by RCPBasicKeyLess), hashing a
   variable's name mixes an opaque per-variable word, the term dictionary is a list of (exponent vector, coefficient) pairs with
   pairwise different exponent vectors iterated in an arbitrary order, unified_eq on sets / unordered maps is equality as sets. */
#include "core.h"
int verif_thrown; bool verif_may_throw;
struct Basic;
/* a generator (variable) object: id = its eq-class, alt = which of two objects of that class it is.  Two eq generators may PRINT differently
   (f(0.0) and f(-0.0) are eq with equal hashes), so __str__ depends on (id, alt) while hash() depends on id only (the C01 contract of the children) */
struct strkey { int id; bool alt; };
struct varobj { int id; bool alt; strkey __str__() const { strkey k; k.id = id; k.alt = alt; return k; } };
inline void hash_combine_impl(hash_t &seed, const varobj &v);
#include "hc.inc"
struct evec {                     /* vec_uint: exponent vector */
  unsigned d[2]; unsigned n;
  evec() { n = 0; d[0] = 0; d[1] = 0; }
  evec(const evec &o) { n = o.n; d[0] = o.d[0]; d[1] = o.d[1]; }
  evec &operator=(const evec &o) { n = o.n; d[0] = o.d[0]; d[1] = o.d[1]; return *this; }      /* explicit copies: the front end cannot synthesise them for array members */
  unsigned size() const { return n; }
  void resize(unsigned k, unsigned v) { __CPROVER_assert(k <= 2, "stub capacity (exponent vector)"); for (unsigned i = 0; i < 2; i++) if (i >= n && i < k) d[i] = v; n = k; }
};
inline bool operator==(const evec &a, const evec &b) { return a.n == b.n && (a.n < 1 || a.d[0] == b.d[0]) && (a.n < 2 || a.d[1] == b.d[1]); }
typedef long coef_t;              /* integer_class: one word is enough here (only == / != and mp_get_si are used) */
inline long mp_get_si(coef_t c) { return c; }
struct term { evec first; coef_t second; term() { second = 0; } term(const term &o) { first = o.first; second = o.second; } term &operator=(const term &o) { first = o.first; second = o.second; return *this; } };
struct mdict {
  mutable term d[2]; unsigned n; bool rev;
  mdict() { n = 0; rev = false; }
  mdict(const mdict &o) { n = o.n; rev = o.rev; d[0] = o.d[0]; d[1] = o.d[1]; }
  mdict &operator=(const mdict &o) { n = o.n; rev = o.rev; d[0] = o.d[0]; d[1] = o.d[1]; return *this; }
  unsigned size() const { return n; }
  bool empty() const { return n == 0; }
  term *begin() const { return &d[0]; }
  term at(unsigned k) const { term t; unsigned i = (rev && n == 2) ? 1 - k : k; t.first = d[i < 2 ? i : 0].first; t.second = d[i < 2 ? i : 0].second; return t; }
};
struct vset { int d[2]; bool alt[2]; unsigned n; vset() { n = 0; d[0] = 0; d[1] = 0; alt[0] = false; alt[1] = false; } vset(const vset &o) { n = o.n; d[0] = o.d[0]; d[1] = o.d[1]; alt[0] = o.alt[0]; alt[1] = o.alt[1]; }
  vset &operator=(const vset &o) { n = o.n; d[0] = o.d[0]; d[1] = o.d[1]; alt[0] = o.alt[0]; alt[1] = o.alt[1]; return *this; } unsigned size() const { return n; } int at(unsigned k) const { return d[k < 2 ? k : 0]; }
  varobj obj(unsigned k) const { varobj v; v.id = d[k < 2 ? k : 0]; v.alt = alt[k < 2 ? k : 0]; return v; } };   /* set_basic of generators: sorted eq-class ids (set equality is by eq, i.e. by id) */
inline bool unified_eq(const vset &a, const vset &b) { return a.n == b.n && (a.n < 1 || a.d[0] == b.d[0]) && (a.n < 2 || a.d[1] == b.d[1]); }
inline bool term_eq(const term &a, const term &b) { return a.first == b.first && a.second == b.second; }
inline bool unified_eq(const mdict &a, const mdict &b)
{
  if (a.n != b.n) return false;
  if (a.n == 0) return true;
  if (a.n == 1) return term_eq(a.d[0], b.d[0]);
  return (term_eq(a.d[0], b.d[0]) && term_eq(a.d[1], b.d[1])) || (term_eq(a.d[0], b.d[1]) && term_eq(a.d[1], b.d[0]));
}
#ifdef MPOLY_CMP
/* ---- C02 stubs, written from dict.h (trusted): unified_compare<T> (== then <), ordered_compare on the variable set with the
   symbols' __cmp__ (opaque injective ranking CMPRANK: an assumed total order consistent with eq), unordered_compare on the term
   dictionary (sizes, then keys sorted with std::less<vec_uint> = lexicographic, then key / value comparison in that order). */
inline int unified_compare(const long &a, const long &b) { if (a == b) return 0; return a < b ? -1 : 1; }
unsigned CMPRANK[4];
inline int sym_cmp(int u, int v) { unsigned a = CMPRANK[u >= 0 && u < 4 ? u : 0], b = CMPRANK[v >= 0 && v < 4 ? v : 0]; if (a == b) return 0; return a < b ? -1 : 1; }
inline int unified_compare(const vset &a, const vset &b)
{
  if (a.n != b.n) return a.n < b.n ? -1 : 1;
  for (unsigned i = 0; i < 2; i++) if (i < a.n) { int t = sym_cmp(a.d[i], b.d[i]); if (t != 0) return t; }
  return 0;
}
inline bool evec_less(const evec &a, const evec &b)       /* std::vector operator< : lexicographic */
{
  for (unsigned i = 0; i < 2; i++) { if (i >= b.n) return false; if (i >= a.n) return true; if (a.d[i] < b.d[i]) return true; if (b.d[i] < a.d[i]) return false; }
  return false;
}
inline int unified_compare(const mdict &a, const mdict &b)
{
  if (a.n != b.n) return a.n < b.n ? -1 : 1;
  term a0, a1, b0, b1;        /* the terms in key order (named objects: no symbolic index into the arrays) */
  if (a.n == 2 && evec_less(a.d[1].first, a.d[0].first)) { a0 = a.d[1]; a1 = a.d[0]; } else { a0 = a.d[0]; a1 = a.d[1]; }
  if (b.n == 2 && evec_less(b.d[1].first, b.d[0].first)) { b0 = b.d[1]; b1 = b.d[0]; } else { b0 = b.d[0]; b1 = b.d[1]; }
  if (a.n >= 1) {
    if (evec_less(a0.first, b0.first)) return -1;
    if (evec_less(b0.first, a0.first)) return 1;
    int t = unified_compare(a0.second, b0.second); if (t != 0) return t;
  }
  if (a.n >= 2) {
    if (evec_less(a1.first, b1.first)) return -1;
    if (evec_less(b1.first, a1.first)) return 1;
    int t = unified_compare(a1.second, b1.second); if (t != 0) return t;
  }
  return 0;
}
#endif
hash_t NAMEHASH[4];               /* opaque: hash() of the generators of eq-class id (equal for eq objects: the children's contract) */
hash_t STRHASH[8];                /* opaque: what hashing the printed name of object (id, alt) mixes in */
inline void hash_combine_impl(hash_t &seed, const varobj &v) { hash_combine_impl(seed, NAMEHASH[v.id >= 0 && v.id < 4 ? v.id : 0]); }
inline void hash_combine_str(hash_t &seed, const strkey &k) { hash_combine<hash_t>(seed, STRHASH[(k.id >= 0 && k.id < 4 ? k.id : 0) * 2 + (k.alt ? 1 : 0)]); }
/* vec_hash<vec_uint>()(v): the real template text (vechash.inc), instantiated for the exponent-vector stub */
#include "vechash.inc"
struct polybox { mdict dict_; polybox() {} polybox(const polybox &o) { dict_ = o.dict_; } polybox &operator=(const polybox &o) { dict_ = o.dict_; return *this; } };
struct MIntPoly;
struct Basic { TypeID type_code_; const MIntPoly *mp_; };
inline bool is_a_Poly(const Basic &b) { return b.type_code_ == SYMENGINE_MINTPOLY; }
inline const MIntPoly &as_Poly(const Basic &b) { return *b.mp_; }
struct MIntPoly {
  vset vars_; polybox poly_;
  vset get_vars() const { return vars_; }
  polybox get_poly() const { polybox p; p.dict_ = poly_.dict_; return p; }
  hash_t __hash__() const;
#include "mpoly_const.inc"
#include "mpoly_eq.inc"
#ifdef MPOLY_CMP
#include "mpoly_cmp.inc"
#endif
};
#include "mpoly_hash.inc"

static void any_poly(MIntPoly &p, Basic &b)
{
  b.type_code_ = SYMENGINE_MINTPOLY; b.mp_ = &p;
  p.vars_.n = nondet_uint(); __CPROVER_assume(p.vars_.n <= 2);
  p.vars_.d[0] = nondet_int(); p.vars_.d[1] = nondet_int(); p.vars_.alt[0] = nondet_boolean(); p.vars_.alt[1] = nondet_boolean();
  __CPROVER_assume(p.vars_.d[0] >= 0 && p.vars_.d[0] < 4 && p.vars_.d[1] >= 0 && p.vars_.d[1] < 4 && (p.vars_.n < 2 || p.vars_.d[0] < p.vars_.d[1]));
  p.poly_.dict_.n = nondet_uint(); __CPROVER_assume(p.poly_.dict_.n <= 2); p.poly_.dict_.rev = nondet_boolean();
  for (unsigned k = 0; k < 2; k++) {
    p.poly_.dict_.d[k].first.n = p.vars_.n;            /* class invariant: one exponent per variable */
    p.poly_.dict_.d[k].first.d[0] = nondet_uint(); p.poly_.dict_.d[k].first.d[1] = nondet_uint();
    __CPROVER_assume(p.poly_.dict_.d[k].first.d[0] <= 3 && p.poly_.dict_.d[k].first.d[1] <= 3);
    if (p.vars_.n < 2) p.poly_.dict_.d[k].first.d[1] = 0; if (p.vars_.n < 1) p.poly_.dict_.d[k].first.d[0] = 0;
    p.poly_.dict_.d[k].second = nondet_long(); __CPROVER_assume(p.poly_.dict_.d[k].second != 0);     /* no stored zero coefficient */
  }
  __CPROVER_assume(p.poly_.dict_.n < 2 || !(p.poly_.dict_.d[0].first == p.poly_.dict_.d[1].first));
}
static bool spec_constant(const MIntPoly &p) { return p.poly_.dict_.n == 0 || (p.poly_.dict_.n == 1 && p.poly_.dict_.d[0].first.d[0] == 0 && p.poly_.dict_.d[0].first.d[1] == 0); }
extern "C" void h_mpoly(void)
{
  for (unsigned k = 0; k < 4; k++) NAMEHASH[k] = nondet_ulong();
  for (unsigned k = 0; k < 8; k++) STRHASH[k] = nondet_ulong();
  MIntPoly P, Q; Basic PB, QB; any_poly(P, PB); any_poly(Q, QB);
  verif_may_throw = false;
  bool e = P.__eq__(QB);
  hash_t hp = P.__hash__(), hq = Q.__hash__();
  OBL("C01.MIntPoly.eq_implies_equal_hash", !e || hp == hq);
  OBL("C01.MIntPoly.eq_symmetric", e == Q.__eq__(PB));
  /* eq must not identify polynomials that differ as functions: same variables, different terms */
  OBL("C01.MIntPoly.eq_implies_same_terms_when_variables_agree", !e || !unified_eq(P.vars_, Q.vars_) || unified_eq(P.poly_.dict_, Q.poly_.dict_));
  /* a non-constant single term is never equal to a constant */
  OBL("C01.MIntPoly.eq_never_identifies_a_constant_with_a_nonconstant_term", !e || !(P.poly_.dict_.n == 1 && Q.poly_.dict_.n == 1) || spec_constant(P) == spec_constant(Q));
  /* the helper the hash relies on: constant <=> no term, or one term with all exponents zero */
  OBL("C01.MIntPoly.is_constant.post.iff_no_nonzero_exponent", P.is_constant() == spec_constant(P));
  /* constants over different variable sets ARE equal (the suite pins it): the case the property statement singles out */
  OBL("C01.MIntPoly.equal_constants_over_any_variables_are_eq", !(spec_constant(P) && spec_constant(Q) && P.poly_.dict_.n == Q.poly_.dict_.n && (P.poly_.dict_.n == 0 || P.poly_.dict_.d[0].second == Q.poly_.dict_.d[0].second)) || e);
  REACHABLE("h_mpoly");
}

#ifdef MPOLY_CMP
/* C02: compare of two polynomials is a three-way total order whose zero is exactly eq (Basic::__cmp__ calls compare when the type codes agree) */
extern "C" void h_mpoly_cmp(void)
{
  for (unsigned k = 0; k < 4; k++) { NAMEHASH[k] = nondet_ulong(); CMPRANK[k] = nondet_uint(); }
  __CPROVER_assume(CMPRANK[0] != CMPRANK[1] && CMPRANK[0] != CMPRANK[2] && CMPRANK[0] != CMPRANK[3] && CMPRANK[1] != CMPRANK[2] && CMPRANK[1] != CMPRANK[3] && CMPRANK[2] != CMPRANK[3]);
  MIntPoly P, Q, S; Basic PB, QB, SB; any_poly(P, PB); any_poly(Q, QB); any_poly(S, SB);
  verif_may_throw = false;
  int pq = P.compare(QB), qp = Q.compare(PB), qs = Q.compare(SB), ps = P.compare(SB);
  bool e = P.__eq__(QB);
  OBL("C02.MIntPoly.cmp.range", pq == -1 || pq == 0 || pq == 1);
  OBL("C02.MIntPoly.cmp.zero_iff_eq", (pq == 0) == e);
  OBL("C02.MIntPoly.cmp.antisymmetric", pq == -qp);
  OBL("C02.MIntPoly.cmp.transitive", !(pq <= 0 && qs <= 0) || (ps <= 0 && (ps < 0 || (pq == 0 && qs == 0))));
  OBL("C02.MIntPoly.cmp.reflexive_on_one_object", P.compare(PB) == 0);
  REACHABLE("h_mpoly_cmp");
}
#endif

import sys, os
sys.path.insert(0, os.path.join(os.path.dirname(__file__), '..', 'common'))
from vf import Unit, Entry
import leafnum_pieces as L
import mpoly_pieces as M

META = {"level": "proof"}

def units(tier):
    ents = [Entry('h_c01', defines={'CLS': k}, timeout=300, bounds="full domain: every bit pattern of the data members") for k in range(1, 7)]
    ents.append(Entry('h_c01', defines={'CLS': 0}, label='h_c01_mixed', timeout=300, bounds="full domain, any two leaf classes"))
    ents.append(Entry('h_c01_combine', timeout=120))
    u = Unit('leafnum', 'C01', 'contracts/common/leafnum.cpp', {'hc.inc': L.hc_pieces(), 'leaf.inc': L.leaf_pieces()},
             ents, route='F', trusted=L.TRUSTED,
             assumptions=["composite classes (Add, Mul, Pow, functions, sets, polynomials, matrices) are NOT under contract in this unit"])
    return [u, L.composite_unit('C01', Unit, Entry, tier), M.mpoly_unit('C01')]

def replay_args(obl, inputs, res):
    keep = ('A.', 'B.', 'C.', 'ka', 'kb', 'kc', 'pb_is_a')
    if '.MIntPoly.' in obl:
        return [obl]
    return [obl] + ["%s=%s" % (k, v.get("binary") or v.get("data")) for k, v in sorted(inputs.items())
                    if k.startswith(keep) and not k.endswith(('.self', '.p'))]

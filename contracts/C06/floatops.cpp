/* C06, clause "an operation between a finite float and a finite number never returns an exact number":
   the in-class arithmetic of RealDouble (real_double.h) and ComplexDouble (complex_double.h) — add/sub/rsub/mul/div/rdiv
   dispatchers and their *real / *comp helpers, real text in rd_members.inc / cd_members.inc (one region each, verbatim).
   Route F, kind level: double and complex arithmetic is opaque (any value); what is decided is WHICH constructor builds the
   result for every pair of kinds — RealDouble or ComplexDouble, never an exact Integer/Rational/Complex. */
#include "core.h"
int verif_thrown; bool verif_may_throw;
struct NotImplementedError {}; struct SymEngineException {};
enum FK { FK_INTEGER = 0, FK_RATIONAL = 1, FK_COMPLEX = 2, FK_REAL_DOUBLE = 3, FK_COMPLEX_DOUBLE = 4, FK_NONE = 5 };
struct integer_class { int tag; }; struct rational_class { int tag; };
inline double mp_get_d(const integer_class &) { return nondet_double(); }        /* GMP conversion: some double */
inline double mp_get_d(const rational_class &) { return nondet_double(); }
struct cdouble { double re, im; cdouble operator-() const { cdouble r; r.re = -re; r.im = -im; return r; } };     /* unary minus as a member (a free unary operator- hides the binary ones in the front end) */
inline cdouble cdouble_of(double a, double b) { cdouble r; r.re = a; r.im = b; return r; }
static cdouble any_c() { cdouble r; r.re = nondet_double(); r.im = nondet_double(); return r; }
/* std::complex<double> arithmetic: opaque */
inline cdouble operator+(const cdouble &, const cdouble &) { return any_c(); } inline cdouble operator-(const cdouble &, const cdouble &) { return any_c(); }
inline cdouble operator*(const cdouble &, const cdouble &) { return any_c(); } inline cdouble operator/(const cdouble &, const cdouble &) { return any_c(); }
inline cdouble operator+(const cdouble &, double) { return any_c(); } inline cdouble operator-(const cdouble &, double) { return any_c(); }
inline cdouble operator*(const cdouble &, double) { return any_c(); } inline cdouble operator/(const cdouble &, double) { return any_c(); }
inline cdouble operator+(double, const cdouble &) { return any_c(); } inline cdouble operator-(double, const cdouble &) { return any_c(); }
inline cdouble operator*(double, const cdouble &) { return any_c(); } inline cdouble operator/(double, const cdouble &) { return any_c(); }
struct Integer; struct Rational; struct Complex; struct RealDouble; struct ComplexDouble;
struct Number;
typedef Number *RCPNumber;
struct Number {
  int kind; Integer *in; Rational *ra; Complex *co; RealDouble *rd; ComplexDouble *cd;
  /* the else-branch of a dispatcher forwards to other.op(*this): reached for the other float kind (and for kinds outside this unit) */
  RCPNumber add(const RealDouble &o) const; RCPNumber sub(const RealDouble &o) const; RCPNumber mul(const RealDouble &o) const; RCPNumber div(const RealDouble &o) const;
  RCPNumber rsub(const RealDouble &o) const; RCPNumber rdiv(const RealDouble &o) const;
  RCPNumber add(const ComplexDouble &o) const; RCPNumber sub(const ComplexDouble &o) const; RCPNumber mul(const ComplexDouble &o) const; RCPNumber div(const ComplexDouble &o) const;
  RCPNumber rsub(const ComplexDouble &o) const; RCPNumber rdiv(const ComplexDouble &o) const;
};
struct Integer { bool zero_; Number *num_; integer_class as_integer_class() const { integer_class c; c.tag = 0; return c; } bool is_zero() const { return zero_; } };
struct Rational { Number *num_; rational_class as_rational_class() const { rational_class c; c.tag = 0; return c; } };
struct Complex { rational_class real_, imaginary_; Number *num_; };
Number res_exact_zero, res_rd, res_cd, res_other;
RCPNumber zero;
inline RCPNumber mk_RealDouble(double) { return &res_rd; }
inline RCPNumber mk_ComplexDouble(const cdouble &) { return &res_cd; }
inline RCPNumber number(const cdouble &) { return &res_cd; }     /* real_double.cpp: number(std::complex<double>) = complex_double(x) */
inline RCPNumber number(double) { return &res_rd; }
inline bool is_a_Integer(const Number &x) { return x.kind == FK_INTEGER; } inline bool is_a_Rational(const Number &x) { return x.kind == FK_RATIONAL; }
inline bool is_a_Complex(const Number &x) { return x.kind == FK_COMPLEX; } inline bool is_a_RealDouble(const Number &x) { return x.kind == FK_REAL_DOUBLE; }
inline bool is_a_ComplexDouble(const Number &x) { return x.kind == FK_COMPLEX_DOUBLE; }
inline const Integer &as_Integer(const Number &x) { return *x.in; } inline const Rational &as_Rational(const Number &x) { return *x.ra; }
inline const Complex &as_Complex(const Number &x) { return *x.co; } inline const RealDouble &as_RealDouble(const Number &x) { return *x.rd; }
inline const ComplexDouble &as_ComplexDouble(const Number &x) { return *x.cd; }
struct RealDouble {
  double i; Number *num_;
#include "rd_members.inc"
};
struct ComplexDouble {
  cdouble i; Number *num_;
#include "cd_members.inc"
};
/* forwarding other.op(*this): to the other float class when 'other' is one (real text), otherwise outside this unit */
#define FWD(op, T, field) RCPNumber Number::op(const T &o) const { if (kind == FK_REAL_DOUBLE) return rd->op(*o.num_); if (kind == FK_COMPLEX_DOUBLE) return cd->op(*o.num_); return &res_other; }
FWD(add, RealDouble, rd) FWD(sub, RealDouble, rd) FWD(mul, RealDouble, rd) FWD(div, RealDouble, rd) FWD(rsub, RealDouble, rd) FWD(rdiv, RealDouble, rd)
FWD(add, ComplexDouble, cd) FWD(sub, ComplexDouble, cd) FWD(mul, ComplexDouble, cd) FWD(div, ComplexDouble, cd) FWD(rsub, ComplexDouble, cd) FWD(rdiv, ComplexDouble, cd)

extern "C" void h_float_ops(void)
{
  res_exact_zero.kind = FK_INTEGER; res_rd.kind = FK_REAL_DOUBLE; res_cd.kind = FK_COMPLEX_DOUBLE; res_other.kind = FK_NONE; zero = &res_exact_zero;
  Number A, B; Integer BI; Rational BR; Complex BC; RealDouble AR, BD; ComplexDouble AC, BCD;
  A.rd = &AR; A.cd = &AC; AR.num_ = &A; AC.num_ = &A; AR.i = nondet_double(); AC.i = any_c();
  B.in = &BI; B.ra = &BR; B.co = &BC; B.rd = &BD; B.cd = &BCD; BI.num_ = &B; BR.num_ = &B; BC.num_ = &B; BD.num_ = &B; BCD.num_ = &B;
  BI.zero_ = nondet_boolean(); BD.i = nondet_double(); BCD.i = any_c();
  A.kind = FLOATCLS;
  int kb = nondet_int(); __CPROVER_assume(kb >= FK_INTEGER && kb <= FK_COMPLEX_DOUBLE); B.kind = kb;
  int op = nondet_int(); __CPROVER_assume(op >= 0 && op <= 5);
  /* rsub / rdiv are only called by the exact classes (Number::sub / div forward other.rsub(*this)): other is exact there */
  __CPROVER_assume(op < 4 || kb <= FK_COMPLEX);
#ifdef KF_C06_REALDOUBLE_TIMES_EXACT_ZERO
  __CPROVER_assume(!(FLOATCLS == FK_REAL_DOUBLE && op == 2 && kb == FK_INTEGER && BI.zero_));
#endif
  verif_may_throw = false;
  RCPNumber r;
#if FLOATCLS == 3
#define OBJ AR
#else
#define OBJ AC
#endif
  switch (op) { case 0: r = OBJ.add(B); break; case 1: r = OBJ.sub(B); break; case 2: r = OBJ.mul(B); break; case 3: r = OBJ.div(B); break; case 4: r = OBJ.rsub(B); break; default: r = OBJ.rdiv(B); break; }
  bool cplx = (FLOATCLS == FK_COMPLEX_DOUBLE) || kb == FK_COMPLEX || kb == FK_COMPLEX_DOUBLE;
  OBL("C06.float_op_finite.never_returns_an_exact_number", r->kind == FK_REAL_DOUBLE || r->kind == FK_COMPLEX_DOUBLE);
  OBL("C06.float_op_finite.result_kind_is_complex_iff_an_operand_is", r->kind == (cplx ? FK_COMPLEX_DOUBLE : FK_REAL_DOUBLE));
  REACHABLE("h_float_ops");
}

/* Route F: Infty::add/mul/div/pow/rpow, NaN::*, Number::sub/rsub/div/rdiv (real text in ops.inc)
   against the ghost-number contracts; postconditions are the extended-number rules of C06. */
#include "ghostnum.h"
GHOSTNUM_GLOBALS
struct SymEngineException {}; struct NotImplementedError {};
#include "free.inc"
#include "ops.inc"

/* ---- assumed contracts of the finite kinds (Integer/Rational/Complex/RealDouble/ComplexDouble):
        x.op(other) forwards to other.op(*this) / other.rop(*this) when 'other' is an Infty or NaN
        (integer.h, rational.h, complex.h, real_double.h); finite op finite is exact on ghost values */
static RCPBasic g_cplx() { Basic *r = gfresh(); r->type_code_ = SYMENGINE_COMPLEX; r->cls = G_CPLX; r->v = nondet_int(); __CPROVER_assume(r->v >= -G_VMAX && r->v <= G_VMAX); g_setid(r); return r; }
static bool special(const Basic &x) { return x.type_code_ == SYMENGINE_INFTY || x.type_code_ == SYMENGINE_NOT_A_NUMBER; }
RCPBasic Basic::add(const Basic &o) const
{
  if (type_code_ == SYMENGINE_INFTY) return inf_->add(o);
  if (type_code_ == SYMENGINE_NOT_A_NUMBER) return nan_->add(o);
  if (special(o)) return o.add(*this);
  if (cls == G_FIN && o.cls == G_FIN) return g_finite(SYMENGINE_RATIONAL, v + o.v);
  return g_cplx();
}
RCPBasic Basic::mul(const Basic &o) const
{
  if (type_code_ == SYMENGINE_INFTY) return inf_->mul(o);
  if (type_code_ == SYMENGINE_NOT_A_NUMBER) return nan_->mul(o);
  if (special(o)) return o.mul(*this);
  if (cls == G_FIN && o.cls == G_FIN) return g_mul(o);
  return g_cplx();
}
RCPBasic Basic::sub(const Basic &o) const
{
  if (special(*this)) return number_sub(o);            /* Infty and NaN inherit Number::sub */
  if (special(o)) return o.rsub(*this);
  if (cls == G_FIN && o.cls == G_FIN) return g_finite(SYMENGINE_RATIONAL, v - o.v);
  return g_cplx();
}
RCPBasic Basic::rsub(const Basic &o) const { return number_rsub(o); }
RCPBasic Basic::div(const Basic &o) const
{
  if (type_code_ == SYMENGINE_INFTY) return inf_->div(o);
  if (type_code_ == SYMENGINE_NOT_A_NUMBER) return nan_->div(o);
  if (special(o)) return o.rdiv(*this);
  if (cls == G_FIN && o.cls == G_FIN) {
    if (o.v == 0) return v == 0 ? Nan : ComplexInf;     /* x/0 = zoo, 0/0 = nan (C05) */
    int q = nondet_int(); __CPROVER_assume(q >= 1 && q <= 1000);
    int s = (v > 0 ? 1 : (v < 0 ? -1 : 0)) * (o.v > 0 ? 1 : -1);
    return g_finite(SYMENGINE_RATIONAL, s * q);
  }
  return g_cplx();
}
RCPBasic Basic::rdiv(const Basic &o) const { return number_rdiv(o); }
RCPBasic Basic::pow(const Basic &o) const
{
  if (type_code_ == SYMENGINE_INFTY) return inf_->pow(o);
  if (type_code_ == SYMENGINE_NOT_A_NUMBER) return nan_->pow(o);
  if (special(o)) return o.rpow(*this);
  __CPROVER_assert(false, "stub: finite ** finite is not modelled"); return Nan;
}
RCPBasic Basic::rpow(const Basic &o) const
{
  if (type_code_ == SYMENGINE_INFTY) return inf_->rpow(o);
  return nan_->rpow(o);
}

/* ---- operands */
static RCPBasic infinity_operand()
{
  int d = nondet_int(); __CPROVER_assume(d >= -1 && d <= 1);
  return d > 0 ? Inf : (d < 0 ? NegInf : ComplexInf);
}
static RCPBasic number_operand(Basic *slot, bool allow_complex)
{
  int k = nondet_int(); __CPROVER_assume(k >= 0 && k <= (allow_complex ? 7 : 6));
  int v = nondet_int(); __CPROVER_assume(v >= -1000 && v <= 1000);
  slot->inf_ = &g_noinf; slot->nan_ = &g_nonan; slot->arg1 = &g_none; slot->arg2 = &g_none; slot->bval = false; slot->v = v;
  switch (k) {
    case 0: __CPROVER_assume(v % 2 == 0); slot->type_code_ = SYMENGINE_INTEGER; slot->cls = G_FIN; break;
    case 1: __CPROVER_assume(v % 2 != 0); slot->type_code_ = SYMENGINE_RATIONAL; slot->cls = G_FIN; break;
    case 2: slot->type_code_ = SYMENGINE_REAL_DOUBLE; slot->cls = G_FIN; break;
    case 3: return Inf;
    case 4: return NegInf;
    case 5: return ComplexInf;
    case 6: return Nan;
    default: slot->type_code_ = nondet_boolean() ? SYMENGINE_COMPLEX : SYMENGINE_COMPLEX_DOUBLE; slot->cls = G_CPLX; break;
  }
  g_setid(slot);
  return slot;
}
#define WITNESS(a, b) int a_type = (a)->type_code_, a_cls = (a)->cls, a_v = (a)->v, b_type = (b)->type_code_, b_cls = (b)->cls, b_v = (b)->v
static int flip(int c) { return c == G_PINF ? G_NINF : (c == G_NINF ? G_PINF : c); }
static bool signed_inf(int c) { return c == G_PINF || c == G_NINF; }
static bool same_value(RCPBasic x, RCPBasic y) { return x->cls == y->cls && (x->cls != G_FIN || x->v == y->v); }

/* KF_... none: the nan-absorption defects are repaired by a fix: commit, see KNOWN_FINDINGS.txt */

/* ---- Infty op other: the rule table of the property statement */
extern "C" void h_infty_rules(void)
{
  g_init_constants();
  Basic SB; RCPBasic A = infinity_operand(), o = number_operand(&SB, false);
  WITNESS(A, o);
  int ac = A->cls, oc = o->cls, ov = o->v;
  verif_may_throw = false;
  g_region(0); RCPBasic s = A->add(*o);
  int want = oc == G_NANV ? G_NANV : (oc == G_FIN ? ac : ((ac == oc && ac != G_ZOO) ? ac : G_NANV));
  OBL("C06.Infty.add.post.rule_table", s->cls == want);
  g_region(1); RCPBasic d = A->sub(*o);
  want = oc == G_NANV ? G_NANV : (oc == G_FIN ? ac : ((signed_inf(ac) && oc == flip(ac)) ? ac : G_NANV));
  OBL("C06.Infty.sub.post.rule_table", d->cls == want);
  g_region(2); RCPBasic m = A->mul(*o);
  if (oc == G_NANV) OBL("C06.Infty.mul.post.nan_absorbs", m->cls == G_NANV);
  else if (oc == G_FIN) OBL("C06.Infty.mul.post.finite_factor", m->cls == (ov > 0 ? ac : (ov < 0 ? flip(ac) : G_NANV)));
  else if (signed_inf(ac) && signed_inf(oc)) OBL("C06.Infty.mul.post.signed_infinities", m->cls == (ac == oc ? G_PINF : G_NINF));
  else OBL("C06.Infty.mul.post.unsigned_infinity_stays_infinite_or_nan", m->cls == G_ZOO || m->cls == G_NANV);
  g_region(3); RCPBasic q = A->div(*o);
  if (oc == G_NANV || oc != G_FIN) OBL("C06.Infty.div.post.nan_or_infinite_divisor_gives_nan", q->cls == G_NANV);
  else if (ov != 0) OBL("C06.Infty.div.post.finite_divisor", q->cls == (ov > 0 ? ac : flip(ac)));
  else OBL("C06.Infty.div.post.zero_divisor", q->cls == G_ZOO || q->cls == G_NANV);
  REACHABLE("h_infty_rules");
}
/* ---- other op Infty (the finite classes forward to the Infty methods): commutativity and the reflected rules */
extern "C" void h_commute(void)
{
  g_init_constants();
  Basic SB; RCPBasic A = nondet_boolean() ? infinity_operand() : Nan, o = number_operand(&SB, false);
  WITNESS(A, o);
  verif_may_throw = false;
  g_region(0); RCPBasic s1 = A->add(*o); g_region(1); RCPBasic s2 = o->add(*A);
  OBL("C06.add.commutes_with_infinity_or_nan", same_value(s1, s2));
  g_region(2); RCPBasic m1 = A->mul(*o); g_region(3); RCPBasic m2 = o->mul(*A);
  OBL("C06.mul.commutes_with_infinity_or_nan", same_value(m1, m2));
  /* reflected subtraction and division: finite - oo = -oo, finite / oo = 0 */
  g_region(4); RCPBasic d = o->sub(*A);
  if (o->cls == G_FIN && A->cls != G_NANV) OBL("C06.rsub.post.finite_minus_infinity", d->cls == flip(A->cls));
  g_region(5); RCPBasic q = o->div(*A);
  if (o->cls == G_FIN && signed_inf(A->cls)) OBL("C06.rdiv.post.finite_over_infinity_is_zero", q->cls == G_FIN && q->v == 0);
  REACHABLE("h_commute");
}
/* ---- nan absorbs every operation, on either side */
extern "C" void h_nan_absorbs(void)
{
  g_init_constants();
  Basic SB; RCPBasic o = number_operand(&SB, true);
  int op = nondet_int(); __CPROVER_assume(op >= 0 && op <= 4);
  bool left = nondet_boolean();
  RCPBasic x = left ? Nan : o, y = left ? o : Nan;
  WITNESS(x, y);
  /* pow with a finite base and finite exponent does not occur here: one side is nan */
  verif_may_throw = false;
  g_region(0);
  RCPBasic r = op == 0 ? x->add(*y) : op == 1 ? x->sub(*y) : op == 2 ? x->mul(*y) : op == 3 ? x->div(*y) : x->pow(*y);
  OBL("C06.nan.absorbs_every_operation", r->cls == G_NANV && r->type_code_ == SYMENGINE_NOT_A_NUMBER);
  REACHABLE("h_nan_absorbs");
}
/* ---- Infty::pow / rpow: never a non-canonical infinity, never an undeclared exception */
extern "C" void h_infty_pow(void)
{
  g_init_constants();
  Basic SB; RCPBasic A = infinity_operand(), o = number_operand(&SB, true);
  WITNESS(A, o);
  bool r = nondet_boolean();
  /* NotImplementedError is an allowed outcome where the statement fixes no value */
  verif_may_throw = o->cls == G_CPLX || (!r && A->cls == G_NINF && o->cls == G_FIN && o->v > 0) || (r && (o->cls != G_FIN || o->v <= 0 || A->cls == G_ZOO));
  g_region(0);
  RCPBasic p = r ? o->pow(*A) : A->pow(*o);
  OBL("C06.Infty.pow.post.result_is_a_canonical_number", p->cls == G_FIN || p->cls == G_NANV || p->cls == G_PINF || p->cls == G_NINF || p->cls == G_ZOO);
  if (!r && o->cls == G_FIN && o->v == 0) OBL("C06.Infty.pow.post.zero_exponent_gives_one", p->cls == G_FIN && p->v == 2);
  if (!r && A->cls == G_PINF && o->cls == G_FIN && o->v > 0) OBL("C06.Infty.pow.post.positive_exponent_keeps_oo", p->cls == G_PINF);
  if (!r && o->cls == G_FIN && o->v < 0) OBL("C06.Infty.pow.post.negative_exponent_gives_zero", p->cls == G_FIN && p->v == 0);
  REACHABLE("h_infty_pow");
}

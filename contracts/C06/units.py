import sys, os
sys.path.insert(0, os.path.join(os.path.dirname(__file__), '..', 'common'))
from vf import Unit, Entry, Piece, R
import ghost_pieces as G

META = {"level": "proof"}
INF = 'symengine/infinity.cpp'

def units(tier):
    NUMR = [R(r'RCP<const Number> Number::(sub|rsub|div|rdiv)\(', r'RCPBasic Basic::number_\1(', n=1, regex=True,
              why="Number is the stub Basic; the base-class default gets a distinct name so that the dispatcher can select it")]
    ops = G.infty_pred_pieces()
    ops += [Piece(INF, r'bool Infty::is_canonical\(const RCP<const Number> &num\) const', rules=G.TOK)]
    ops += [Piece(INF, r'RCP<const Number> Infty::%s\(const Number &other\) const' % m, rules=G.TOK) for m in ('add', 'mul', 'div', 'pow', 'rpow')]
    ops += [Piece('symengine/nan.cpp', r'RCP<const Number> NaN::%s\(const Number &other\) const' % m, rules=G.TOK) for m in ('add', 'mul', 'div', 'pow', 'rpow')]
    ops += [Piece('symengine/number.cpp', r'RCP<const Number> Number::%s\(const Number &other\) const' % m, rules=NUMR + G.TOK) for m in ('sub', 'rsub', 'div', 'rdiv')]
    b = "full domain of the ghost model: every kind pair, ghost values 2*value in [-1000,1000]"
    ents = [Entry(h, timeout=600, mem_gb=6, unwind=5, bounds=b) for h in ('h_infty_rules', 'h_commute', 'h_nan_absorbs', 'h_infty_pow')]
    u = Unit('infnan', 'C06', 'contracts/C06/infnan.cpp',
             {'infty_inline.inc': G.infty_inline_pieces(), 'free.inc': G.common_free_pieces(), 'ops.inc': ops},
             ents, route='F',
             trusted=G.TRUSTED + ["finite kinds forward x.op(other) to other.op(*this) / other.rop(*this) when other is an Infty or NaN (in-class methods of integer.h, rational.h, complex.h, real_double.h, complex_double.h: not under contract)",
                                  "finite (op) finite is exact on the ghost value"],
             assumptions=["finite x finite double dispatch and 'float op finite never returns an exact number' are not covered",
                          "RealDouble/ComplexDouble operands hold finite values"])
    return [u, float_unit(), pred_unit()]

FTOK = [R('RCP<const Number>', 'RCPNumber', n='*', why="RCP<const Number> -> raw pointer typedef"),
        R(r'make_rcp<const (\w+)>\(', r'mk_\1(', n='*', regex=True, why="make_rcp<T>(...) -> stub constructor recording the class of the result"),
        R(r'is_a<(\w+)>\(', r'is_a_\1(', n='*', regex=True), R(r'down_cast<const (\w+) &>\(', r'as_\1(', n='*', regex=True),
        R('std::complex<double>(', 'cdouble_of(', n='*', why="std::complex<double>(re, im) -> opaque complex stub"),
        R(r'\) const override\b', ') const', n='*', regex=True, why="'override' is rejected by the front end"),
        R(r'throw (\w+)\(((?:[^;()"]|"[^"]*"|\([^()]*\))*)\);', r'VERIF_THROW(\1);', n='*', regex=True)]

def float_unit():
    rd = Piece('symengine/real_double.h', r'^    RCP<const Number> addreal\(const Integer &other\) const',
               region_end=r'RCP<const Number> rdiv\(const Number &other\) const override\s*\{[\s\S]*?\n    \}', rules=FTOK,
               name='RealDouble: members addreal(Integer) .. rdiv(Number) [one verbatim region of the class body]')
    cd = Piece('symengine/complex_double.h', r'^    RCP<const Number> addcomp\(const Integer &other\) const',
               region_end=r'RCP<const Number> rdiv\(const Number &other\) const override\s*\{[\s\S]*?\n    \}', rules=FTOK,
               name='ComplexDouble: members addcomp(Integer) .. rdiv(Number) [one verbatim region of the class body]')
    ents = [Entry('h_float_ops', defines={'FLOATCLS': k}, route='F', timeout=300, label='h_float_ops_' + nm,
                  bounds="every kind of the other operand (Integer incl. zero, Rational, Complex, RealDouble, ComplexDouble), every operation add/sub/mul/div/rsub/rdiv, any values")
            for k, nm in ((3, 'RealDouble'), (4, 'ComplexDouble'))]
    return Unit('float_ops', 'C06', 'contracts/C06/floatops.cpp', {'rd_members.inc': [rd], 'cd_members.inc': [cd]}, ents, route='F',
                trusted=["kind-level model: double / std::complex<double> arithmetic and mp_get_d are opaque (any value); make_rcp<RealDouble/ComplexDouble>, number() record the class of the result",
                         "the exact classes forward x.op(float) to float.op/rop(x) (integer.h, rational.h, complex.h: not under contract)"],
                assumptions=["values of floating-point results are not judged (C12 territory); pow/rpow of the float classes are not under contract"])

def pred_unit(prop='C06'):
    OV = [R(r'\) const override\b', ') const', n='*', regex=True, why="'override' is rejected by the front end")]
    blk = r'\s*\{[\s\S]*?\n    \}'
    ip = Piece('symengine/integer.h', r'^    inline bool is_zero\(\) const override', region_end=r'inline bool is_complex\(\) const override' + blk, rules=OV,
               name='Integer: is_zero .. is_complex [one verbatim region of the class body]')
    rp = Piece('symengine/rational.h', r'^    bool is_zero\(\) const override', region_end=r'inline bool is_negative\(\) const override' + blk, rules=OV,
               name='Rational: is_zero .. is_negative [one verbatim region of the class body]')
    rc = Piece('symengine/rational.h', r'^    inline bool is_complex\(\) const override', region_end=r'return false;\s*\}', rules=OV, name='Rational::is_complex')
    d1 = Piece('symengine/real_double.h', r'^    inline bool is_positive\(\) const override', region_end=r'inline bool is_negative\(\) const override' + blk, rules=OV,
               name='RealDouble: is_positive, is_negative')
    d2 = Piece('symengine/real_double.h', r'^    bool is_zero\(\) const override', region_end=r'bool is_complex\(\) const override' + blk, rules=OV,
               name='RealDouble: is_zero .. is_complex')
    return Unit('sign_predicates', prop, 'contracts/C06/signpred.cpp', {'integer_pred.inc': [ip], 'rational_pred.inc': [rp, rc], 'realdouble_pred.inc': [d1, d2]},
                [Entry('h_sign_predicates', route='F', timeout=120, defines={'PFX': '"%s"' % prop}, label='h_sign_predicates', bounds="every 64-bit integer, every canonical rational over two machine words, every double bit pattern")], route='F',
                trusted=["integer_class / rational_class comparisons with 0, 1, -1 are those of the mathematical value (GMP); a canonical rational has a positive denominator"],
                assumptions=["Complex, ComplexDouble, Infty (proved under unit infnan) and NaN predicates are not in this unit"])

def replay_args(obl, inputs, res):
    if 'predicates' in obl:
        return [obl] + ['D.i=%s' % inputs['D.i'].get('binary')] if 'D.i' in inputs else [obl]
    if 'float_op_finite' in obl:
        e = res.get('_e'); d = e.defines if e else res.get('defines', {})
        return [obl, 'FLOATCLS=%s' % d.get('FLOATCLS', 3)] + (['kf=1'] if res.get('_nokf') else []) + ['%s=%s' % (k, inputs[k].get('data')) for k in ('kb', 'op', 'BI.zero_') if k in inputs]
    keep = ('a_type', 'a_cls', 'a_v', 'b_type', 'b_cls', 'b_v', 'op', 'left', 'r')
    return [obl] + ["%s=%s" % (k, v.get("binary") or v.get("data")) for k, v in sorted(inputs.items()) if k in keep]

import sys, os
sys.path.insert(0, os.path.join(os.path.dirname(__file__), '..', 'common'))
from vf import Unit, Entry, Piece, R
import ghost_pieces as G

META = {"level": "proof"}
INF = 'symengine/infinity.cpp'

def units(tier):
    NUMR = [R(r'RCP<const Number> Number::(sub|rsub|div|rdiv)\(', r'RCPBasic Basic::number_\1(', n=1, regex=True,
              why="Number is the stub Basic; the base-class default gets a distinct name so that the dispatcher can select it")]
    ops = G.infty_pred_pieces()
    ops += [Piece(INF, r'bool Infty::is_canonical\(const RCP<const Number> &num\) const', rules=G.TOK)]
    ops += [Piece(INF, r'RCP<const Number> Infty::%s\(const Number &other\) const' % m, rules=G.TOK) for m in ('add', 'mul', 'div', 'pow', 'rpow')]
    ops += [Piece('symengine/nan.cpp', r'RCP<const Number> NaN::%s\(const Number &other\) const' % m, rules=G.TOK) for m in ('add', 'mul', 'div', 'pow', 'rpow')]
    ops += [Piece('symengine/number.cpp', r'RCP<const Number> Number::%s\(const Number &other\) const' % m, rules=NUMR + G.TOK) for m in ('sub', 'rsub', 'div', 'rdiv')]
    b = "full domain of the ghost model: every kind pair, ghost values 2*value in [-1000,1000]"
    ents = [Entry(h, timeout=600, mem_gb=6, unwind=5, bounds=b) for h in ('h_infty_rules', 'h_commute', 'h_nan_absorbs', 'h_infty_pow')]
    u = Unit('infnan', 'C06', 'contracts/C06/infnan.cpp',
             {'infty_inline.inc': G.infty_inline_pieces(), 'free.inc': G.common_free_pieces(), 'ops.inc': ops},
             ents, route='F',
             trusted=G.TRUSTED + ["finite kinds forward x.op(other) to other.op(*this) / other.rop(*this) when other is an Infty or NaN (in-class methods of integer.h, rational.h, complex.h, real_double.h, complex_double.h: not under contract)",
                                  "finite (op) finite is exact on the ghost value"],
             assumptions=["finite x finite double dispatch and 'float op finite never returns an exact number' are not covered",
                          "RealDouble/ComplexDouble operands hold finite values"])
    return [u]

def replay_args(obl, inputs, res):
    keep = ('a_type', 'a_cls', 'a_v', 'b_type', 'b_cls', 'b_v', 'op', 'left', 'r')
    return [obl] + ["%s=%s" % (k, v.get("binary") or v.get("data")) for k, v in sorted(inputs.items()) if k in keep]

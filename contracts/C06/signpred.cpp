/* The sign / identity predicates of the number classes (in-class, real text in *_pred.inc): is_zero, is_one, is_minus_one,
   is_positive, is_negative, is_complex of Integer, Rational and RealDouble.  The ghost-number prelude used by C06, C29 and C34
   ASSUMES that these predicates read the sign of the value; this unit discharges that assumption for the three real kinds:
   route F, every machine integer / canonical rational / every double bit pattern (signed zeros, NaNs, infinities). */
#include "core.h"
#ifndef PFX
#define PFX "C06"
#endif
int verif_thrown; bool verif_may_throw;
struct rational_class { long num, den; };
inline bool operator==(const rational_class &q, int k) { return q.den == 1 && q.num == k; }      /* canonical: an integer value has denominator 1 */
inline bool operator>(const rational_class &q, int k) { __CPROVER_assert(k == 0, "stub: rational compared with 0 only"); return q.num > 0; }
inline bool operator<(const rational_class &q, int k) { __CPROVER_assert(k == 0, "stub: rational compared with 0 only"); return q.num < 0; }
struct Integer { long i;
#include "integer_pred.inc"
};
struct Rational { rational_class i;
#include "rational_pred.inc"
};
struct RealDouble { double i;
#include "realdouble_pred.inc"
};
extern "C" void h_sign_predicates(void)
{
  verif_may_throw = false;
  Integer I; I.i = nondet_long();
  OBL(PFX ".predicates.Integer.sign_and_identity", I.is_zero() == (I.i == 0) && I.is_one() == (I.i == 1) && I.is_minus_one() == (I.i == -1)
      && I.is_positive() == (I.i > 0) && I.is_negative() == (I.i < 0) && !I.is_complex());
  Rational Q; Q.i.num = nondet_long(); Q.i.den = nondet_long(); __CPROVER_assume(Q.i.den >= 1 && (Q.i.num != 0 || Q.i.den == 1));      /* canonical */
  OBL(PFX ".predicates.Rational.sign_and_identity", Q.is_zero() == (Q.i.num == 0) && Q.is_one() == (Q.i.num == 1 && Q.i.den == 1) && Q.is_minus_one() == (Q.i.num == -1 && Q.i.den == 1)
      && Q.is_positive() == (Q.i.num > 0) && Q.is_negative() == (Q.i.num < 0) && !Q.is_complex());
  RealDouble D; D.i = nondet_double();
  OBL(PFX ".predicates.RealDouble.zero_iff_value_is_zero_of_either_sign", D.is_zero() == (D.i == 0.0));
  OBL(PFX ".predicates.RealDouble.positive_iff_greater_than_zero", D.is_positive() == (D.i > 0.0));
  OBL(PFX ".predicates.RealDouble.negative_iff_less_than_zero", D.is_negative() == (D.i < 0.0));
  OBL(PFX ".predicates.RealDouble.a_zero_is_neither_positive_nor_negative", !(D.is_zero() && (D.is_positive() || D.is_negative())));
  OBL(PFX ".predicates.RealDouble.never_exactly_one_and_never_complex", !D.is_one() && !D.is_minus_one() && !D.is_complex());
  REACHABLE("h_sign_predicates");
}

/* Route F: what each property visitor answers for a Number or Constant argument (real bvisit text in
   rules.inc / *_inline.inc) against the ghost value of that number.  A definite answer must be true. */
struct RationalVisitor;
#define GHOST_BASIC_EXTRA void accept(RationalVisitor &v) const;
#include "ghostnum.h"
GHOSTNUM_GLOBALS
struct SymEngineException {}; struct NotImplementedError {};
struct Assumptions;
#include "tribool.inc"
#include "free.inc"
RCPBasic pi, E, EulerGamma, Catalan, GoldenRatio;

/* stub visitor classes: the data members of test_visitors.h; bvisit overloads renamed bvisit_<Class> by rule */
#define V5(Name, field) struct Name { tribool field; const Assumptions *assumptions_; void bvisit_Number(const Basic &x); void bvisit_Constant(const Basic &x); };
V5(ZeroVisitor, is_zero_) V5(PositiveVisitor, is_positive_) V5(NonPositiveVisitor, is_nonpositive_)
V5(NegativeVisitor, is_negative_) V5(NonNegativeVisitor, is_nonnegative_)
struct RealVisitor { tribool is_real_; const Assumptions *assumptions_; void bvisit_Number(const Basic &x); void bvisit_Constant(const Basic &x); };
struct FiniteVisitor { tribool is_finite_; const Assumptions *assumptions_; void error();
  void bvisit_Number(const Basic &x); void bvisit_Infty(const Basic &x); void bvisit_NaN(const Basic &x); void bvisit_Constant(const Basic &x); };
struct IntegerVisitor { tribool is_integer_; const Assumptions *assumptions_; void bvisit_Constant(const Basic &x);
#include "IntegerVisitor_inline.inc"
};
struct ComplexVisitor { tribool is_complex_; const Assumptions *assumptions_; void bvisit_Number(const Basic &x);
#include "ComplexVisitor_inline.inc"
};
struct RationalVisitor { bool rational_; tribool is_rational_; bool neither_; const Basic *arg_;
  void bvisit_Number(const Basic &x); void bvisit_Constant(const Basic &x); tribool apply(const Basic &b);
#include "RationalVisitor_inline.inc"
};
static void accept(const Basic &b, RationalVisitor &v);
#include "rules.inc"

/* ---- dispatch table = C++ overload resolution of bvisit on the static class (BaseVisitor CRTP); TRUSTED */
static void accept(const Basic &b, IntegerVisitor &v) { if (b.type_code_ == SYMENGINE_CONSTANT) v.bvisit_Constant(b); else if (b.type_code_ == SYMENGINE_INTEGER) v.bvisit_Integer(b); else v.bvisit_Number(b); }
static void accept(const Basic &b, ComplexVisitor &v) { if (b.type_code_ == SYMENGINE_CONSTANT) v.bvisit_Constant(b); else if (b.type_code_ == SYMENGINE_INTEGER) v.bvisit_Integer(b); else if (b.type_code_ == SYMENGINE_RATIONAL) v.bvisit_Rational(b); else v.bvisit_Number(b); }
static void accept(const Basic &b, FiniteVisitor &v) { if (b.type_code_ == SYMENGINE_CONSTANT) v.bvisit_Constant(b); else if (b.type_code_ == SYMENGINE_INFTY) v.bvisit_Infty(b); else if (b.type_code_ == SYMENGINE_NOT_A_NUMBER) v.bvisit_NaN(b); else v.bvisit_Number(b); }
static void accept(const Basic &b, RationalVisitor &v) { if (b.type_code_ == SYMENGINE_CONSTANT) v.bvisit_Constant(b); else if (b.type_code_ == SYMENGINE_INTEGER) v.bvisit_Integer(b); else if (b.type_code_ == SYMENGINE_RATIONAL) v.bvisit_Rational(b); else v.bvisit_Number(b); }
template <class V> static void accept2(const Basic &b, V &v) { if (b.type_code_ == SYMENGINE_CONSTANT) v.bvisit_Constant(b); else v.bvisit_Number(b); }
/* RationalVisitor::apply calls b.accept(*this) */
void Basic::accept(RationalVisitor &v) const { ::accept(*this, v); }

static bool sound(tribool t, bool P) { return (!is_true(t) || P) && (!is_false(t) || !P); }
static bool valid(tribool t) { return t == tribool::indeterminate || t == tribool::trifalse || t == tribool::tritrue; }

static RCPBasic number_operand(Basic *slot)
{
  int k = nondet_int(); __CPROVER_assume(k >= 0 && k <= 7);
  int v = nondet_int(); __CPROVER_assume(v >= -1000 && v <= 1000);
  slot->inf_ = &g_noinf; slot->nan_ = &g_nonan; slot->arg1 = &g_none; slot->arg2 = &g_none; slot->bval = false; slot->v = v;
  switch (k) {
    case 0: __CPROVER_assume(v % 2 == 0); slot->type_code_ = SYMENGINE_INTEGER; slot->cls = G_FIN; break;
    case 1: __CPROVER_assume(v % 2 != 0); slot->type_code_ = SYMENGINE_RATIONAL; slot->cls = G_FIN; break;
    case 2: slot->type_code_ = SYMENGINE_REAL_DOUBLE; slot->cls = G_FIN; break;
    case 3: return Inf;
    case 4: return NegInf;
    case 5: return ComplexInf;
    case 6: return Nan;
    default: slot->type_code_ = nondet_boolean() ? SYMENGINE_COMPLEX : SYMENGINE_COMPLEX_DOUBLE; slot->cls = G_CPLX; break;
  }
  g_setid(slot);
  return slot;
}
extern "C" void h_number_rules(void)
{
  g_init_constants();
  Basic SA; RCPBasic a = number_operand(&SA);
  int a_type = a->type_code_, a_cls = a->cls, a_v = a->v;
  int c = a->cls, v = a->v;
  bool fin = c == G_FIN;
  bool is_float = a->type_code_ == SYMENGINE_REAL_DOUBLE || a->type_code_ == SYMENGINE_COMPLEX_DOUBLE;
  verif_may_throw = false;
  { ZeroVisitor z; z.assumptions_ = 0; accept2(*a, z); OBL("C34.ZeroVisitor.Number.sound", valid(z.is_zero_) && sound(z.is_zero_, fin && v == 0)); }
  { PositiveVisitor p; p.assumptions_ = 0; accept2(*a, p); OBL("C34.PositiveVisitor.Number.sound", valid(p.is_positive_) && sound(p.is_positive_, (fin && v > 0) || c == G_PINF)); }
  { NegativeVisitor p; p.assumptions_ = 0; accept2(*a, p); OBL("C34.NegativeVisitor.Number.sound", valid(p.is_negative_) && sound(p.is_negative_, (fin && v < 0) || c == G_NINF)); }
  { NonPositiveVisitor p; p.assumptions_ = 0; accept2(*a, p); OBL("C34.NonPositiveVisitor.Number.sound", valid(p.is_nonpositive_) && sound(p.is_nonpositive_, (fin && v <= 0) || c == G_NINF)); }
  { NonNegativeVisitor p; p.assumptions_ = 0; accept2(*a, p); OBL("C34.NonNegativeVisitor.Number.sound", valid(p.is_nonnegative_) && sound(p.is_nonnegative_, (fin && v >= 0) || c == G_PINF)); }
  { RealVisitor p; p.assumptions_ = 0; accept2(*a, p); OBL("C34.RealVisitor.Number.sound", valid(p.is_real_) && sound(p.is_real_, fin)); }
  { ComplexVisitor p; p.assumptions_ = 0; accept(*a, p); OBL("C34.ComplexVisitor.Number.sound", valid(p.is_complex_) && sound(p.is_complex_, fin || c == G_CPLX)); }
  if (!is_float) { IntegerVisitor p; p.assumptions_ = 0; accept(*a, p); OBL("C34.IntegerVisitor.Number.sound", valid(p.is_integer_) && sound(p.is_integer_, fin && v % 2 == 0)); }
  if (!is_float) {
    bool want_rational = nondet_boolean();
    RationalVisitor p; p.rational_ = want_rational; p.neither_ = false; p.arg_ = a;
    tribool r = p.apply(*a);
    /* exact kinds only: a finite exact real is rational; nothing else is rational or irrational */
    OBL("C34.RationalVisitor.Number.sound", valid(r) && sound(r, want_rational ? fin : false));
  }
  REACHABLE("h_number_rules");
}

extern "C" void h_constant_rules(void)
{
  g_init_constants();
  /* the five named constants of constants.h; ghost facts: all positive reals, none an integer,
     pi, E, GoldenRatio irrational, rationality of EulerGamma and Catalan unknown */
  Basic C0, C1, C2, C3, C4; Basic *cs[5];
  cs[0] = &C0; cs[1] = &C1; cs[2] = &C2; cs[3] = &C3; cs[4] = &C4;
  for (int i = 0; i < 5; i++) { cs[i]->type_code_ = SYMENGINE_CONSTANT; cs[i]->cls = G_NONNUM; cs[i]->v = i; cs[i]->inf_ = &g_noinf; cs[i]->nan_ = &g_nonan; cs[i]->arg1 = &g_none; cs[i]->arg2 = &g_none; g_setid(cs[i]); }
  pi = &C0; E = &C1; EulerGamma = &C2; Catalan = &C3; GoldenRatio = &C4;
  int ci = nondet_int(); __CPROVER_assume(ci >= 0 && ci <= 4);
  RCPBasic a = ci == 0 ? pi : ci == 1 ? E : ci == 2 ? EulerGamma : ci == 3 ? Catalan : GoldenRatio;
  verif_may_throw = false;
  { ZeroVisitor z; z.assumptions_ = 0; accept2(*a, z); OBL("C34.ZeroVisitor.Constant.sound", valid(z.is_zero_) && sound(z.is_zero_, false)); }
  { PositiveVisitor p; p.assumptions_ = 0; accept2(*a, p); OBL("C34.PositiveVisitor.Constant.sound", valid(p.is_positive_) && sound(p.is_positive_, true)); }
  { NegativeVisitor p; p.assumptions_ = 0; accept2(*a, p); OBL("C34.NegativeVisitor.Constant.sound", valid(p.is_negative_) && sound(p.is_negative_, false)); }
  { NonPositiveVisitor p; p.assumptions_ = 0; accept2(*a, p); OBL("C34.NonPositiveVisitor.Constant.sound", valid(p.is_nonpositive_) && sound(p.is_nonpositive_, false)); }
  { NonNegativeVisitor p; p.assumptions_ = 0; accept2(*a, p); OBL("C34.NonNegativeVisitor.Constant.sound", valid(p.is_nonnegative_) && sound(p.is_nonnegative_, true)); }
  { RealVisitor p; p.assumptions_ = 0; accept2(*a, p); OBL("C34.RealVisitor.Constant.sound", valid(p.is_real_) && sound(p.is_real_, true)); }
  { ComplexVisitor p; p.assumptions_ = 0; accept(*a, p); OBL("C34.ComplexVisitor.Constant.sound", valid(p.is_complex_) && sound(p.is_complex_, true)); }
  { FiniteVisitor p; p.assumptions_ = 0; accept(*a, p); OBL("C34.FiniteVisitor.Constant.sound", valid(p.is_finite_) && sound(p.is_finite_, true)); }
  { IntegerVisitor p; p.assumptions_ = 0; accept(*a, p); OBL("C34.IntegerVisitor.Constant.sound", valid(p.is_integer_) && sound(p.is_integer_, false)); }
  {
    bool want_rational = nondet_boolean();
    RationalVisitor p; p.rational_ = want_rational; p.neither_ = false; p.arg_ = a;
    tribool r = p.apply(*a);
    bool known_irrational = ci == 0 || ci == 1 || ci == 4;
    /* for EulerGamma / Catalan any definite answer is unjustified */
    OBL("C34.RationalVisitor.Constant.sound", valid(r) && (known_irrational ? sound(r, !want_rational) : is_indeterminate(r)));
  }
  REACHABLE("h_constant_rules");
}
/* FiniteVisitor on numbers: NaN is rejected with an exception, infinities are not finite */
extern "C" void h_finite_rules(void)
{
  g_init_constants();
  Basic SA; RCPBasic a = number_operand(&SA);
  int a_type = a->type_code_, a_cls = a->cls, a_v = a->v;
  verif_may_throw = a->cls == G_NANV;
  FiniteVisitor p; p.assumptions_ = 0; accept(*a, p);
  OBL("C34.FiniteVisitor.Number.sound", valid(p.is_finite_) && sound(p.is_finite_, a->cls == G_FIN || a->cls == G_CPLX));
  OBL("C34.FiniteVisitor.Number.definite", !is_indeterminate(p.is_finite_));
  REACHABLE("h_finite_rules");
}

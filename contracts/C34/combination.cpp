/* C34 route B: combination rules of the assumption visitors (real text in rules.inc) checked against the CONTRACT of
   the recursive call: accept()/check_power()/apply() on a child leave a SOUND answer about the child's ghost value
   (indeterminate = no claim) — the induction hypothesis.  Children carry a ghost complex value re + i*im with small
   integer parts; the obligation is that a definite answer of the parent is true of the sum / product of those values.
   At most MAXT terms / factors. */
#include "core.h"
int verif_thrown; bool verif_may_throw;
#include "tribool.inc"
#ifndef MAXT
#define MAXT 2
#endif
struct Assumptions;
struct RealVisitor; struct PositiveVisitor; struct NegativeVisitor; struct IntegerVisitor; struct ComplexVisitor;
struct Basic {
  int re, im;                                  /* ghost value */
  tribool real_answer, pos_answer, neg_answer, int_answer, cplx_answer, nonpos_answer, nonneg_answer, zero_answer; /* what the visitors answer for this child: any SOUND tribool (harness assumption) */
  bool finite;                                 /* ghost: the child's value is a (finite) complex number; false models zoo / nan / oo */
  void accept(RealVisitor &v) const;
  void accept(PositiveVisitor &v) const;
  void accept(IntegerVisitor &v) const;
  void accept(ComplexVisitor &v) const;
  bool is_complex() const { return im != 0; }  /* Number::is_complex of the numeric coefficient */
  bool is_positive() const { return im == 0 && re > 0; }
  bool is_negative() const { return im == 0 && re < 0; }
  bool is_zero() const { return im == 0 && re == 0; }
};
typedef Basic *RCPBasic;
struct vec_basic { RCPBasic d[MAXT + 1]; unsigned n; unsigned size() const { return n; } RCPBasic at(unsigned k) const { return d[k <= MAXT ? k : 0]; } };
struct dict_entry { RCPBasic first, second; };
struct term_dict { dict_entry e[MAXT]; unsigned n; unsigned size() const { return n; } dict_entry at(unsigned k) const { dict_entry r; r.first = e[k < MAXT ? k : 0].first; r.second = e[k < MAXT ? k : 0].second; return r; } };
struct Add { RCPBasic coef; term_dict dict; vec_basic args; RCPBasic get_coef() const { return coef; } term_dict get_dict() const { return dict; } vec_basic get_args() const { return args; } };
struct Mul { RCPBasic coef; term_dict dict; vec_basic args; RCPBasic get_coef() const { return coef; } term_dict get_dict() const { return dict; } vec_basic get_args() const { return args; } };
struct NegativeVisitor { Assumptions *a; NegativeVisitor(Assumptions *x) { a = x; } tribool apply(const Basic &b) { return b.neg_answer; } };
/* the sibling sign visitors, each by its CONTRACT (a sound answer about the child): a maintenance edit may pick any of them */
struct NonPositiveVisitor { Assumptions *a; NonPositiveVisitor(Assumptions *x) { a = x; } tribool apply(const Basic &b) { return b.nonpos_answer; } };
struct NonNegativeVisitor { Assumptions *a; NonNegativeVisitor(Assumptions *x) { a = x; } tribool apply(const Basic &b) { return b.nonneg_answer; } };
struct ZeroVisitor { Assumptions *a; ZeroVisitor(Assumptions *x) { a = x; } tribool apply(const Basic &b) { return b.zero_answer; } };
struct RealVisitor {
  tribool is_real_; Assumptions *assumptions_;
  void bvisit_Add(const Add &x); void bvisit_Mul(const Mul &x);
  /* CONTRACT of check_power(base, exp): a sound answer about the factor base**exp, whose ghost value is attached to 'base' here */
  void check_power(const RCPBasic &base, const RCPBasic &exp) { is_real_ = base->real_answer; }
};
struct IntegerVisitor { tribool is_integer_; Assumptions *assumptions_; void bvisit_Add(const Add &x); void bvisit_Mul(const Mul &x); };
struct ComplexVisitor { tribool is_complex_; Assumptions *assumptions_; void bvisit_Add(const Add &x); void bvisit_Mul(const Mul &x);
  void check_power(const Basic &base, const Basic &exp) { is_complex_ = base.cplx_answer; } };      /* CONTRACT of check_power: a sound answer about the factor */
struct PositiveVisitor { tribool is_positive_; Assumptions *assumptions_; void bvisit_Add(const Add &x); };
inline void Basic::accept(RealVisitor &v) const { v.is_real_ = real_answer; }
inline void Basic::accept(PositiveVisitor &v) const { v.is_positive_ = pos_answer; }
inline void Basic::accept(IntegerVisitor &v) const { v.is_integer_ = int_answer; }
inline void Basic::accept(ComplexVisitor &v) const { v.is_complex_ = cplx_answer; }
#include "rules.inc"
static bool valid(tribool t) { return t == tribool::indeterminate || t == tribool::trifalse || t == tribool::tritrue; }
static bool sound(tribool t, bool P) { return (!is_true(t) || P) && (!is_false(t) || !P); }
static tribool any_tribool(void) { int k = nondet_int(); if (k == 0) return tribool::trifalse; if (k == 1) return tribool::tritrue; return tribool::indeterminate; }
Basic ch0, ch1, ch2, cf0, cf1, cf2, c0;
static void any_child(Basic &c, int lo, int hi)
{
  c.re = nondet_int(); c.im = nondet_int(); __CPROVER_assume(lo <= c.re && c.re <= hi && lo <= c.im && c.im <= hi);
  c.real_answer = any_tribool(); c.pos_answer = any_tribool(); c.neg_answer = any_tribool(); c.int_answer = any_tribool(); c.cplx_answer = any_tribool(); c.finite = true;
  c.nonpos_answer = any_tribool(); c.nonneg_answer = any_tribool(); c.zero_answer = any_tribool();
  __CPROVER_assume(sound(c.nonpos_answer, c.im == 0 && c.re <= 0) && sound(c.nonneg_answer, c.im == 0 && c.re >= 0) && sound(c.zero_answer, c.im == 0 && c.re == 0));
  __CPROVER_assume(sound(c.int_answer, c.im == 0) && sound(c.cplx_answer, c.finite));      /* re is an integer in this model: 'integer' <=> real */
  __CPROVER_assume(sound(c.real_answer, c.im == 0) && sound(c.pos_answer, c.im == 0 && c.re > 0) && sound(c.neg_answer, c.im == 0 && c.re < 0));
}
#ifdef KF_C34_REAL_TIMES_POSSIBLY_ZERO
#define KF_NONZERO(c) __CPROVER_assume((c).re != 0 || (c).im != 0)
#else
#define KF_NONZERO(c)
#endif
extern "C" void h_real_mul(void)
{
  /* product coef * f0 * f1 ; Mul::is_canonical: coef != 0, at least one factor */
  any_child(c0, -2, 2); any_child(ch0, -2, 2); any_child(ch1, -2, 2);
  __CPROVER_assume(c0.re != 0 || c0.im != 0);
  KF_NONZERO(ch0); KF_NONZERO(ch1);
  Mul x; x.coef = &c0; x.dict.n = nondet_uint(); __CPROVER_assume(1 <= x.dict.n && x.dict.n <= MAXT);
  x.dict.e[0].first = &ch0; x.dict.e[0].second = &cf0; x.dict.e[1].first = &ch1; x.dict.e[1].second = &cf1;
  int pr = c0.re, pi = c0.im, t;
  t = pr * ch0.re - pi * ch0.im; pi = pr * ch0.im + pi * ch0.re; pr = t;
  if (x.dict.n == 2) { t = pr * ch1.re - pi * ch1.im; pi = pr * ch1.im + pi * ch1.re; pr = t; }
  RealVisitor v; v.assumptions_ = 0; v.is_real_ = tribool::indeterminate; verif_may_throw = false;
  v.bvisit_Mul(x);
  OBL("C34.RealVisitor.Mul.valid_tribool", valid(v.is_real_));
  OBL("C34.RealVisitor.Mul.definite_true_is_true_of_the_product", !is_true(v.is_real_) || pi == 0);
  OBL("C34.RealVisitor.Mul.definite_false_is_true_of_the_product", !is_false(v.is_real_) || pi != 0);
  REACHABLE("h_real_mul");
}
extern "C" void h_real_add(void)
{
  any_child(ch0, -2, 2); any_child(ch1, -2, 2); any_child(ch2, -2, 2);
  Add x; x.args.n = nondet_uint(); __CPROVER_assume(2 <= x.args.n && x.args.n <= MAXT + 1);       /* Add has at least two arguments */
  x.args.d[0] = &ch0; x.args.d[1] = &ch1; x.args.d[2] = &ch2;
  int si = ch0.im + ch1.im + (x.args.n == 3 ? ch2.im : 0);
#ifdef KF_C34_REAL_SUM_OF_NONREAL_TERMS
  /* complement of the known finding: at most one term has a non-zero imaginary part */
  __CPROVER_assume((ch0.im != 0) + (ch1.im != 0) + ((x.args.n == 3 && ch2.im != 0) ? 1 : 0) <= 1);
#endif
  RealVisitor v; v.assumptions_ = 0; v.is_real_ = tribool::indeterminate; verif_may_throw = false;
  v.bvisit_Add(x);
  OBL("C34.RealVisitor.Add.valid_tribool", valid(v.is_real_));
  OBL("C34.RealVisitor.Add.definite_true_is_true_of_the_sum", !is_true(v.is_real_) || si == 0);
  OBL("C34.RealVisitor.Add.definite_false_is_true_of_the_sum", !is_false(v.is_real_) || si != 0);
  REACHABLE("h_real_add");
}
extern "C" void h_positive_add(void)
{
  /* sum coef + cf0*t0 + cf1*t1 with numeric coefficients of any kind (real or complex: x + I has the coefficient I), cf != 0;
     Add::is_canonical: >= 1 term, >= 2 when coef is 0 */
  any_child(c0, -3, 3); any_child(ch0, -3, 3); any_child(ch1, -3, 3); any_child(cf0, -3, 3); any_child(cf1, -3, 3);
  __CPROVER_assume((cf0.re != 0 || cf0.im != 0) && (cf1.re != 0 || cf1.im != 0));
  Add x; x.coef = &c0; x.dict.n = nondet_uint(); __CPROVER_assume(1 <= x.dict.n && x.dict.n <= MAXT); __CPROVER_assume(c0.re != 0 || c0.im != 0 || x.dict.n >= 2);
  x.dict.e[0].first = &ch0; x.dict.e[0].second = &cf0; x.dict.e[1].first = &ch1; x.dict.e[1].second = &cf1;
  int sr = c0.re + (cf0.re * ch0.re - cf0.im * ch0.im), si = c0.im + (cf0.re * ch0.im + cf0.im * ch0.re);
  if (x.dict.n == 2) { sr += cf1.re * ch1.re - cf1.im * ch1.im; si += cf1.re * ch1.im + cf1.im * ch1.re; }
  bool positive = (si == 0 && sr > 0);
  PositiveVisitor v; v.assumptions_ = 0; v.is_positive_ = tribool::indeterminate; verif_may_throw = false;
  v.bvisit_Add(x);
  OBL("C34.PositiveVisitor.Add.definite_true_is_true_of_the_sum", !is_true(v.is_positive_) || positive);
  OBL("C34.PositiveVisitor.Add.definite_false_is_true_of_the_sum", !is_false(v.is_positive_) || !positive);
  REACHABLE("h_positive_add");
}

extern "C" void h_integer_add_mul(void)
{
  /* ghost values are Gaussian integers: a child "is an integer" iff its imaginary part is 0 */
  any_child(ch0, -2, 2); any_child(ch1, -2, 2); any_child(ch2, -2, 2);
  unsigned n = nondet_uint(); __CPROVER_assume(2 <= n && n <= MAXT + 1);
  bool mul = nondet_boolean();
  IntegerVisitor v; v.assumptions_ = 0; v.is_integer_ = tribool::indeterminate; verif_may_throw = false;
  int sr = ch0.re + ch1.re + (n == 3 ? ch2.re : 0), si = ch0.im + ch1.im + (n == 3 ? ch2.im : 0);
  int pr = ch0.re * ch1.re - ch0.im * ch1.im, pi = ch0.re * ch1.im + ch0.im * ch1.re;
  if (n == 3) { int t = pr * ch2.re - pi * ch2.im; pi = pr * ch2.im + pi * ch2.re; pr = t; }
  if (mul) { Mul x; x.args.n = n; x.args.d[0] = &ch0; x.args.d[1] = &ch1; x.args.d[2] = &ch2; v.bvisit_Mul(x); }
  else { Add x; x.args.n = n; x.args.d[0] = &ch0; x.args.d[1] = &ch1; x.args.d[2] = &ch2; v.bvisit_Add(x); }
  OBL("C34.IntegerVisitor.AddMul.definite_true_is_true_of_the_result", !is_true(v.is_integer_) || (mul ? pi == 0 : si == 0));
  OBL("C34.IntegerVisitor.AddMul.definite_false_is_true_of_the_result", !is_false(v.is_integer_) || (mul ? pi != 0 : si != 0));
  REACHABLE("h_integer_add_mul");
}
extern "C" void h_complex_add_mul(void)
{
  /* "is_complex" = the value is a finite complex number; a non-finite child (zoo, nan, oo) may make the result non-finite or not */
  any_child(ch0, -1, 1); any_child(ch1, -1, 1); any_child(ch2, -1, 1);
  ch0.finite = nondet_boolean(); ch1.finite = nondet_boolean(); ch2.finite = nondet_boolean();
  __CPROVER_assume(sound(ch0.cplx_answer, ch0.finite) && sound(ch1.cplx_answer, ch1.finite) && sound(ch2.cplx_answer, ch2.finite));
  unsigned n = nondet_uint(); __CPROVER_assume(2 <= n && n <= MAXT + 1);
  bool mul = nondet_boolean();
  ComplexVisitor v; v.assumptions_ = 0; v.is_complex_ = tribool::indeterminate; verif_may_throw = false;
  bool all_finite = ch0.finite && ch1.finite && (n < 3 || ch2.finite);
  if (mul) {
    /* the numeric coefficient of a Mul may be oo, zoo or nan (oo*x is a Mul with coefficient oo); for a Number the visitor's answer is exact (Number rule) */
    any_child(c0, -1, 1); c0.finite = nondet_boolean(); if (c0.finite) c0.cplx_answer = tribool::tritrue; else c0.cplx_answer = tribool::trifalse;
    Mul x; x.coef = &c0; x.dict.n = n - 1; x.dict.e[0].first = &ch0; x.dict.e[0].second = &cf0; x.dict.e[1].first = &ch1; x.dict.e[1].second = &cf1;
    all_finite = c0.finite && ch0.finite && (n < 3 || ch1.finite); v.bvisit_Mul(x);
  }
  else { Add x; x.args.n = n; x.args.d[0] = &ch0; x.args.d[1] = &ch1; x.args.d[2] = &ch2; v.bvisit_Add(x); }
  /* a sum / product of finite complex numbers is a finite complex number: a definite 'true' needs every operand finite */
  OBL("C34.ComplexVisitor.AddMul.definite_true_only_if_every_operand_is_finite", !is_true(v.is_complex_) || all_finite);
  REACHABLE("h_complex_add_mul");
}

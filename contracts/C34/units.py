import sys, os
sys.path.insert(0, os.path.join(os.path.dirname(__file__), '..', 'common'))
from vf import Unit, Entry, Piece, R
import ghost_pieces as G

META = {"level": "proof"}
TV = 'symengine/test_visitors.cpp'
TH = 'symengine/test_visitors.h'

ENUMCAST = R(r'static_cast<tribool>\(', 'static_cast<tribool>((int)(', n='*', regex=True,
             why="CBMC rejects static_cast<EnumClass>(bool/unsigned); the standard converts through the underlying type the same way")

def tribool_pieces():
    ps = [Piece('symengine/tribool.h', r'enum class tribool \{', region_end=r'\};', name='enum class tribool')]
    for f, nfix in (('is_true', 0), ('is_false', 0), ('is_indeterminate', 0), ('tribool_from_bool', 1), ('and_tribool', 1),
                    ('or_tribool', 0), ('not_tribool', 1), ('andwk_tribool', 1), ('orwk_tribool', 1)):
        rules = []
        if nfix:
            # close the extra parenthesis opened by the enum-cast rule: the cast argument ends at the matching ')'
            rules = [R(r'static_cast<tribool>\(((?:[^()]|\((?:[^()]|\([^()]*\))*\))*)\)', r'static_cast<tribool>((int)(\1))', n=nfix, regex=True,
                       why="CBMC rejects static_cast<EnumClass>(bool/unsigned); the standard converts through the underlying type the same way")]
        ps.append(Piece('symengine/tribool.h', r'inline (?:bool|tribool) %s\(' % f, rules=rules))
    return ps

# signature-only rewrite: the overload set bvisit(const T &) becomes bvisit_T(const Basic &) because every
# stub class is the one ghost struct; the harness dispatcher reproduces C++ overload resolution by hand
BV = [R(r'void (\w+)::bvisit\(const (\w+) &x\)', r'void \1::bvisit_\2(const Basic &x)', n='*', regex=True,
        why="overload on the static class -> distinct name (dispatch table in the harness)"),
      R(r'^(\s*)void bvisit\(const (\w+) &x\)', r'\1void bvisit_\2(const Basic &x)', n='*', regex=True),
      R(r'bool\(x\.(is_\w+)\(\)\)', r'x.\1()', n='*', regex=True, why="functional cast bool(bool) is the identity")]

BV2 = [R(r'void (\w+)::bvisit\(const (\w+) &x\)', r'void \1::bvisit_\2(const \2 &x)', n=1, regex=True, why="overload on the static class -> distinct name")]

def number_rule_pieces():
    ps = []
    for v in ('Zero', 'Positive', 'NonPositive', 'Negative', 'NonNegative'):
        ps.append(Piece(TV, r'void %sVisitor::bvisit\(const Number &x\)' % v, rules=BV + G.TOK))
        ps.append(Piece(TV, r'void %sVisitor::bvisit\(const Constant &x\)' % v, rules=BV + G.TOK))
    for v, ovs in (('Real', ('Number', 'Constant')), ('Complex', ('Number',)), ('Rational', ('Number', 'Constant')),
                   ('Finite', ('Number', 'Infty', 'NaN', 'Constant')), ('Integer', ('Constant',))):
        for o in ovs:
            ps.append(Piece(TV, r'void %sVisitor::bvisit\(const %s &x\)' % (v, o), rules=BV + G.TOK))
    ps.append(Piece(TV, r'void FiniteVisitor::error\(\)', rules=G.TOK))
    ps.append(Piece(TV, r'tribool RationalVisitor::apply\(const Basic &b\)', rules=G.TOK))
    return ps

def inline_pieces(cls, overloads):
    """in-class inline overloads of class <cls> in test_visitors.h: the class body region is located first"""
    ps = []
    for o in overloads:
        ps.append(Piece(TH, r'class %sVisitor : public BaseVisitor<%sVisitor>' % (cls, cls), region_end=r'^\};',
                        rules=[R(r'\A.*?(\n    void bvisit\(const %s &x\)\s*\{.*?\n    \};?).*\Z' % o, r'\1\n', n=1, regex=True,
                                 why="select the in-class definition of bvisit(const %s &) from the class body of %sVisitor" % (o, cls))] + BV + G.TOK,
                        name='%sVisitor::bvisit(const %s &) [in-class]' % (cls, o)))
    return ps

def _pred_unit(prop):
    import importlib.util
    spec = importlib.util.spec_from_file_location('units_C06_for_' + prop, os.path.join(os.path.dirname(__file__), '..', 'C06', 'units.py'))
    m = importlib.util.module_from_spec(spec); spec.loader.exec_module(m)
    return m.pred_unit(prop)

def units(tier):
    tri = Unit('tribool', 'C34', 'contracts/C34/tribool.cpp', {'tribool.inc': tribool_pieces()},
               [Entry('h_tri', timeout=120, bounds="all 3x3 tribool values x both truth values")], route='F',
               trusted=["(int) conversion of bool/unsigned before the enum cast (rule) equals the standard's conversion"])
    num = Unit('number_rules', 'C34', 'contracts/C34/number_rules.cpp',
               {'tribool.inc': tribool_pieces(), 'infty_inline.inc': G.infty_inline_pieces(), 'free.inc': G.common_free_pieces(),
                'rules.inc': G.infty_pred_pieces() + number_rule_pieces(),
                'IntegerVisitor_inline.inc': inline_pieces('Integer', ('Integer', 'Number')),
                'ComplexVisitor_inline.inc': inline_pieces('Complex', ('Integer', 'Rational', 'Constant')),
                'RationalVisitor_inline.inc': inline_pieces('Rational', ('Integer', 'Rational'))},
               [Entry('h_number_rules', timeout=300, unwind=4, bounds="every number kind, ghost values 2*value in [-1000,1000]"),
                Entry('h_constant_rules', timeout=300, unwind=6, bounds="the five named constants"),
                Entry('h_finite_rules', timeout=300, unwind=4, bounds="every number kind")],
               route='F',
               trusted=G.TRUSTED + ["visitor dispatch (BaseVisitor CRTP + overload resolution on the static class) is reproduced by a hand-written table in contracts/C34/number_rules.cpp",
                                    "mathematical facts about pi, E, EulerGamma, Catalan, GoldenRatio (positive, real, irrational for pi/E/GoldenRatio, not integers)"],
               assumptions=["ComplexDouble operands have a non-zero imaginary part; RealDouble operands are finite",
                            "is_integer/is_rational on floating-point operands are not judged",
                            "Assumptions::is_* (Symbol rules), Pow and function-specific rules, algebraic/transcendental/polynomial visitors are not under contract"])
    RF = [R('for (const auto &p : x.get_dict()) {', 'term_dict p__d = x.get_dict(); for (unsigned p__k = 0; p__k < p__d.size(); p__k++) { dict_entry p = p__d.at(p__k);', n='*',
             why="range-for over the factor/term dictionary -> index loop over the stub (iteration order irrelevant to the postcondition), body verbatim"),
          R('for (const auto &p : dict) {', 'for (unsigned p__k = 0; p__k < dict.size(); p__k++) { dict_entry p = dict.at(p__k);', n='*', why="range-for -> index loop"),
          R('for (const auto &arg : x.get_args()) {', 'vec_basic a__v = x.get_args(); for (unsigned a__k = 0; a__k < a__v.size(); a__k++) { RCPBasic arg = a__v.at(a__k);', n='*', why="range-for -> index loop"),
          R('auto coef = x.get_coef();', 'RCPBasic coef = x.get_coef();', n='*', why="auto -> explicit type"),
          R('auto dict = x.get_dict();', 'term_dict dict = x.get_dict();', n='*', why="auto -> explicit type")]
    comb_pieces = [Piece(TV, r'void RealVisitor::bvisit\(const Add &x\)', rules=RF + BV2), Piece(TV, r'void RealVisitor::bvisit\(const Mul &x\)', rules=RF + BV2),
                   Piece(TV, r'void PositiveVisitor::bvisit\(const Add &x\)', rules=RF + BV2),
                   Piece(TV, r'void IntegerVisitor::bvisit\(const Add &x\)', rules=RF + BV2), Piece(TV, r'void IntegerVisitor::bvisit\(const Mul &x\)', rules=RF + BV2),
                   Piece(TV, r'void ComplexVisitor::bvisit\(const Add &x\)', rules=RF + BV2), Piece(TV, r'void ComplexVisitor::bvisit\(const Mul &x\)', rules=RF + BV2)]
    comb = Unit('combination_rules', 'C34', 'contracts/C34/combination.cpp', {'tribool.inc': tribool_pieces(), 'rules.inc': comb_pieces},
                [Entry(h, route='B', timeout=600, unwind=5, defines={'MAXT': 2}, bounds="at most 2 terms/factors (3 arguments for Add::get_args), ghost values re, im in [-2,2] ([-3,3] for the positivity rule)")
                 for h in ('h_real_mul', 'h_real_add', 'h_positive_add', 'h_integer_add_mul', 'h_complex_add_mul')], route='B',
                trusted=["the recursive calls accept()/check_power()/NegativeVisitor::apply() on a child are replaced by their CONTRACT: any sound answer about the child's ghost value (induction hypothesis)",
                         "Add/Mul stubs: coefficient, term dictionary, get_args; Add/Mul type invariants (non-empty dictionary, non-zero Mul coefficient) assumed as preconditions"],
                assumptions=["Integer/Rational/Complex/Algebraic/Polynomial visitors' Add/Mul/Pow rules, check_power bodies, Assumptions::is_* and function-specific rules are not under contract"])
    return [tri, num, comb, _pred_unit('C34')]

def replay_args(obl, inputs, res):
    if '.predicates.' in obl:
        return [obl] + (['D.i=%s' % inputs['D.i'].get('binary')] if 'D.i' in inputs else [])
    if 'Visitor.Add' in obl or 'Visitor.Mul' in obl or 'Visitor.AddMul' in obl:
        return [obl] + (["kf=1"] if res.get('_nokf') else [])
    keep = ('a_type', 'a_cls', 'a_v', 'which', 'ci')
    return [obl] + ["%s=%s" % (k, v.get("binary") or v.get("data")) for k, v in sorted(inputs.items()) if k in keep]

/* Route F: symengine/tribool.h (every function, extracted) — Kleene soundness for all inputs */
#include "core.h"
int verif_thrown; bool verif_may_throw;
#include "tribool.inc"
/* sound(t, P): a definite answer t is true of proposition P (indeterminate claims nothing) */
static bool sound(tribool t, bool P) { return (!is_true(t) || P) && (!is_false(t) || !P); }
static bool valid(tribool t) { return t == tribool::indeterminate || t == tribool::trifalse || t == tribool::tritrue; }
extern "C" void h_tri(void)
{
  int an = nondet_int(), bn = nondet_int(); __CPROVER_assume(an >= -1 && an <= 1 && bn >= -1 && bn <= 1);
  tribool a = (tribool)an, b = (tribool)bn;
  bool P = nondet_boolean(), Q = nondet_boolean();
  __CPROVER_assume(sound(a, P) && sound(b, Q));
  OBL("C34.and_tribool.sound", valid(and_tribool(a, b)) && sound(and_tribool(a, b), P && Q));
  OBL("C34.or_tribool.sound", valid(or_tribool(a, b)) && sound(or_tribool(a, b), P || Q));
  OBL("C34.not_tribool.sound", valid(not_tribool(a)) && sound(not_tribool(a), !P));
  OBL("C34.andwk_tribool.sound", valid(andwk_tribool(a, b)) && sound(andwk_tribool(a, b), P && Q));
  OBL("C34.orwk_tribool.sound", valid(orwk_tribool(a, b)) && sound(orwk_tribool(a, b), P || Q));
  OBL("C34.and_tribool.strongest_true", is_true(and_tribool(a, b)) == (is_true(a) && is_true(b)));
  OBL("C34.and_tribool.strongest_false", is_false(and_tribool(a, b)) == (is_false(a) || is_false(b)));
  OBL("C34.or_tribool.strongest_true", is_true(or_tribool(a, b)) == (is_true(a) || is_true(b)));
  OBL("C34.or_tribool.strongest_false", is_false(or_tribool(a, b)) == (is_false(a) && is_false(b)));
  OBL("C34.not_tribool.involution", not_tribool(not_tribool(a)) == a);
  OBL("C34.andwk_tribool.definite_iff_both_definite", is_indeterminate(andwk_tribool(a, b)) == (is_indeterminate(a) || is_indeterminate(b)));
  OBL("C34.orwk_tribool.definite_iff_both_definite", is_indeterminate(orwk_tribool(a, b)) == (is_indeterminate(a) || is_indeterminate(b)));
  OBL("C34.tribool_from_bool.exact", tribool_from_bool(P) == (P ? tribool::tritrue : tribool::trifalse));
  OBL("C34.is_predicates.partition", (is_true(a) ? 1 : 0) + (is_false(a) ? 1 : 0) + (is_indeterminate(a) ? 1 : 0) == 1);
  REACHABLE("h_tri");
}

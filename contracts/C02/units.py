import sys, os
sys.path.insert(0, os.path.join(os.path.dirname(__file__), '..', 'common'))
from vf import Unit, Entry
import leafnum_pieces as L
import mpoly_pieces as M

META = {"level": "proof"}

def units(tier):
    ents = [Entry('h_c02', defines={'CLS': k}, timeout=600, bounds="full domain: every bit pattern of the data members, three objects") for k in range(1, 7)]
    ents.append(Entry('h_c02', defines={'CLS': 0}, label='h_c02_mixed', timeout=900, bounds="full domain, any three leaf classes (type-code dispatch of Basic::__cmp__)"))
    u = Unit('leafnum', 'C02', 'contracts/common/leafnum.cpp', {'hc.inc': L.hc_pieces(), 'leaf.inc': L.leaf_pieces()},
             ents, route='F', trusted=L.TRUSTED,
             assumptions=["compare() of composite classes (Add, Mul, Pow, functions, sets) is NOT under contract in this unit"])
    return [u, L.composite_unit('C02', Unit, Entry), M.mpoly_unit('C02')]

def replay_args(obl, inputs, res):
    if '.MIntPoly.' in obl:
        return [obl]
    keep = ('A.', 'B.', 'C.', 'ka', 'kb', 'kc', 'pb_is_a')
    return [obl] + ["%s=%s" % (k, v.get("binary") or v.get("data")) for k, v in sorted(inputs.items())
                    if k.startswith(keep) and not k.endswith(('.self', '.p'))]

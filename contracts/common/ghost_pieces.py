"""extraction rules shared by the ghost-number units (C29, C06, C34)"""
from vf import Piece, R

TOK = [
    R(r'RCP<const (Boolean|Basic|Number|Infty|BooleanAtom)>', 'RCPBasic', n='*', regex=True, why="RCP<const T> -> raw pointer typedef (overloaded -> unsupported)"),
    R(r'is_a<(\w+)>\(', r'is_aT_\1(', n='*', regex=True, why="template syntax -> stub predicate on type_code_"),
    R(r'down_cast<const (\w+) &>\(', r'as_\1(', n='*', regex=True, why="checked downcast -> stub accessor"),
    R(r'make_rcp<(?:const )?(\w+)>\(', r'mk_\1(', n='*', regex=True, why="make_rcp<T>(...) -> stub constructor recording the arguments"),
    R(r'rcp_static_cast<const (\w+)>\(', r'(', n='*', regex=True, why="static pointer cast is the identity on raw pointers"),
    R(r'rcp_from_this_cast<Number>\(\)', 'rcp_from_this_cast_Number()', n='*', regex=True),
    R(r'throw (\w+)\(((?:[^;()]|\([^()]*\))*)\);', r'VERIF_THROW(\1);', n='*', regex=True, why="exception object dropped (DESIGN §8)"),
    R(r'\) const override\b', ') const', n='*', regex=True, why="'override' is rejected by the front end"),
]

def infty_inline_pieces():
    ps = []
    for m in ('is_zero', 'is_one', 'is_minus_one', 'is_positive', 'is_negative', 'is_complex'):
        ps.append(Piece('symengine/infinity.h', r'inline bool %s\(\) const override' % m, rules=TOK))
    return ps

def infty_pred_pieces():
    return [Piece('symengine/infinity.cpp', r'bool Infty::%s\(\) const' % m, rules=TOK)
            for m in ('is_unsigned_infinity', 'is_positive_infinity', 'is_negative_infinity')]

def common_free_pieces():
    return [
        Piece('symengine/basic-inl.h', r'inline bool eq\(const Basic &a, const Basic &b\)'),
        Piece('symengine/number.h', r'inline bool is_a_Number\(const Basic &b\)'),
        Piece('symengine/complex.h', r'inline bool is_a_Complex\(const Basic &b\)'),
    ]

TRUSTED = [
    "ghost-number prelude (prelude/ghostnum.h): a number is {type_code_, cls, v}; eq <=> structurally equal (canonical leaf numbers); "
    "is_zero/is_one/is_positive/is_negative/is_complex of the finite kinds read the ghost value; Number::sub/mul are exact on the "
    "ghost extended value (for RealDouble: IEEE subtraction has the sign of the exact difference for finite operands)",
    "RCP<const T> modelled as a raw pointer; reference counting not modelled",
    "constructors integer(), infty(), make_rcp<Infty/relational>, boolean(), logical_not(BooleanAtom) are stubs recording their arguments",
]

/* Route F unit shared by C01 and C02: the real __hash__/__eq__/compare of the leaf number classes,
   hash_combine*, Basic::hash, eq, Basic::__cmp__ — extracted text in leaf.inc / hc.inc.
   Everything else in this file is stub (= assumed contract) or harness (= the property statement). */
#include "core.h"
int verif_thrown; bool verif_may_throw;

/* ---- stub: GMP integer / rational, assumed contracts:
        integer_class: == and < are those of the mathematical integer (here: a 128-bit word, so that values beyond one limb exist);
        mp_get_ui = low bits of |x|, mp_get_si = low bits of x, mp_sign = sign;
        rational_class: == compares canonical (num, den); < is a strict total order consistent with ==
        (ghost 'rank': harness assumes rank equal <=> (num,den) equal).                                  */
struct integer_class { __int128 v; };
inline bool operator==(const integer_class &a, const integer_class &b) { return a.v == b.v; }
inline bool operator<(const integer_class &a, const integer_class &b) { return a.v < b.v; }
inline bool operator>(const integer_class &a, const integer_class &b) { return a.v > b.v; }
/* GMP: mpz_get_ui = least significant limb of |x|; mpz_get_si = the same limb with the sign of x (truncating); fits tests */
inline unsigned long mp_get_ui(const integer_class &x) { unsigned __int128 m = x.v < 0 ? (unsigned __int128)0 - (unsigned __int128)x.v : (unsigned __int128)x.v; return (unsigned long)m; }
inline long mp_get_si(const integer_class &x) { unsigned long lo = mp_get_ui(x) & 0x7ffffffffffffffful; return x.v < 0 ? (long)(0ul - lo) : (long)lo; }
inline int mp_sign(const integer_class &x) { return x.v < 0 ? -1 : (x.v > 0 ? 1 : 0); }
inline bool mp_fits_slong_p(const integer_class &x) { return x.v >= -((__int128)1 << 63) && x.v < ((__int128)1 << 63); }
inline bool mp_fits_ulong_p(const integer_class &x) { return x.v >= 0 && x.v < ((__int128)1 << 64); }
struct rational_class { integer_class num, den; long rank; };
inline bool operator==(const rational_class &a, const rational_class &b) { return a.num.v == b.num.v && a.den.v == b.den.v; }
inline bool operator<(const rational_class &a, const rational_class &b) { return a.rank < b.rank; }
inline bool operator<(const rational_class &a, const integer_class &b) { return a.rank < b.v; }
inline integer_class get_num(const rational_class &q) { return q.num; }
inline integer_class get_den(const rational_class &q) { return q.den; }
/* GMP three-way comparisons (mpz_cmp, mpq_cmp, mpz_cmpabs): the documented contract is the SIGN of the result only —
   "a positive value if a > b, zero if a = b, a negative value if a < b"; the magnitude is unspecified (mpq_cmp really returns limb counts) */
inline int gmp_sign_only(int s) { int m = nondet_int(); __CPROVER_assume(m >= 1); return s == 0 ? 0 : (s < 0 ? -m : m); }
inline int mp_cmp(const integer_class &a, const integer_class &b) { return gmp_sign_only(a.v < b.v ? -1 : (a.v > b.v ? 1 : 0)); }
inline int mp_cmp(const rational_class &a, const rational_class &b) { return gmp_sign_only(a.rank < b.rank ? -1 : (a.rank > b.rank ? 1 : 0)); }
inline int mp_cmpabs(const integer_class &a, const integer_class &b) { __int128 x = a.v < 0 ? -a.v : a.v, y = b.v < 0 ? -b.v : b.v; return gmp_sign_only(x < y ? -1 : (x > y ? 1 : 0)); }
#define RANK_OK(x, y) (((x).rank == (y).rank) == ((x) == (y)))
/* ---- stub: std::complex<double> (operator== is component-wise per the C++ standard) */
struct cdouble {
  double re, im;
  double real() const { return re; }
  double imag() const { return im; }
};
inline bool operator==(const cdouble &a, const cdouble &b) { return a.re == b.re && a.im == b.im; }

namespace SymEngine {
using ::get_num; using ::get_den;
}
struct NotImplementedError {};

#include "hc.inc"

/* ---- stub class skeletons: data members as in the real headers.  The Basic sub-object is a separate
        struct with one typed pointer per concrete class (CBMC 6.11 aborts on base<->derived pointer
        casts); virtual dispatch of __hash__/__eq__/compare is a switch on type_code_ (vtable not modelled). */
struct RealDouble; struct ComplexDouble; struct Integer; struct Rational; struct Complex; struct NaN;
struct Basic {
  TypeID type_code_;
  mutable hash_t hash_;
  const RealDouble *rd_; const ComplexDouble *cd_; const Integer *in_; const Rational *ra_; const Complex *co_; const NaN *nn_;
  TypeID get_type_code() const { return type_code_; }
  hash_t __hash__() const;                /* dispatchers, below */
  bool __eq__(const Basic &o) const;
  int compare(const Basic &o) const;
  hash_t hash() const;                    /* extracted */
  int __cmp__(const Basic &o) const;      /* extracted */
};
struct RealDouble { double i; hash_t __hash__() const; bool __eq__(const Basic &o) const; int compare(const Basic &o) const; };
struct ComplexDouble { cdouble i; hash_t __hash__() const; bool __eq__(const Basic &o) const; int compare(const Basic &o) const; };
struct Integer { integer_class i; hash_t __hash__() const; bool __eq__(const Basic &o) const; int compare(const Basic &o) const;
  integer_class as_integer_class() const { return i; } };
struct Rational { rational_class i; hash_t __hash__() const; bool __eq__(const Basic &o) const; int compare(const Basic &o) const; };
struct Complex { rational_class real_, imaginary_; hash_t __hash__() const; bool __eq__(const Basic &o) const; int compare(const Basic &o) const; };
struct NaN { int unused_; hash_t __hash__() const; bool __eq__(const Basic &o) const; int compare(const Basic &o) const; };

#define IS_A(C, code, ptr) inline bool is_a_##C(const Basic &b) { return b.type_code_ == code; } \
  inline const C &as_##C(const Basic &b) { return *b.ptr; }
IS_A(RealDouble, SYMENGINE_REAL_DOUBLE, rd_)
IS_A(ComplexDouble, SYMENGINE_COMPLEX_DOUBLE, cd_)
IS_A(Integer, SYMENGINE_INTEGER, in_)
IS_A(Rational, SYMENGINE_RATIONAL, ra_)
IS_A(Complex, SYMENGINE_COMPLEX, co_)
IS_A(NaN, SYMENGINE_NOT_A_NUMBER, nn_)

#include "leaf.inc"

hash_t Basic::__hash__() const {
  switch (type_code_) {
    case SYMENGINE_REAL_DOUBLE: return rd_->__hash__();
    case SYMENGINE_COMPLEX_DOUBLE: return cd_->__hash__();
    case SYMENGINE_INTEGER: return in_->__hash__();
    case SYMENGINE_RATIONAL: return ra_->__hash__();
    case SYMENGINE_COMPLEX: return co_->__hash__();
    default: return nn_->__hash__();
  }
}
bool Basic::__eq__(const Basic &o) const {
  switch (type_code_) {
    case SYMENGINE_REAL_DOUBLE: return rd_->__eq__(o);
    case SYMENGINE_COMPLEX_DOUBLE: return cd_->__eq__(o);
    case SYMENGINE_INTEGER: return in_->__eq__(o);
    case SYMENGINE_RATIONAL: return ra_->__eq__(o);
    case SYMENGINE_COMPLEX: return co_->__eq__(o);
    default: return nn_->__eq__(o);
  }
}
int Basic::compare(const Basic &o) const {
  switch (type_code_) {
    case SYMENGINE_REAL_DOUBLE: return rd_->compare(o);
    case SYMENGINE_COMPLEX_DOUBLE: return cd_->compare(o);
    case SYMENGINE_INTEGER: return in_->compare(o);
    case SYMENGINE_RATIONAL: return ra_->compare(o);
    case SYMENGINE_COMPLEX: return co_->compare(o);
    default: return nn_->compare(o);
  }
}

/* ------------------------------------------------------------------------------------------
   harness: three arbitrary objects of one class (CLS) or of arbitrary leaf classes (CLS=0);
   a and b may be the same object (eq() short-circuits on identity).                         */
struct Slot { Basic b; RealDouble rd; ComplexDouble cd; Integer in; Rational ra; Complex co; NaN nn; const Basic *p; int kind; };
static bool isnan_d(double x) { return x != x; }
static void mk(Slot &s, int kind)
{
  s.kind = kind;
  s.b.rd_ = &s.rd; s.b.cd_ = &s.cd; s.b.in_ = &s.in; s.b.ra_ = &s.ra; s.b.co_ = &s.co; s.b.nn_ = &s.nn;
  switch (kind) {
    case 1: s.b.type_code_ = SYMENGINE_REAL_DOUBLE; break;
    case 2: s.b.type_code_ = SYMENGINE_COMPLEX_DOUBLE; break;
    case 3: s.b.type_code_ = SYMENGINE_INTEGER; break;
    case 4: s.b.type_code_ = SYMENGINE_RATIONAL; break;
    case 5: s.b.type_code_ = SYMENGINE_COMPLEX; break;
    default: s.b.type_code_ = SYMENGINE_NOT_A_NUMBER; break;
  }
  s.p = &s.b;
  /* type invariants of the real classes (Rational/Complex::is_canonical): positive denominators */
  __CPROVER_assume(s.ra.i.den.v >= 1 && s.co.real_.den.v >= 1 && s.co.imaginary_.den.v >= 1);
  /* cache invariant of Basic::hash_: 0 (not yet computed) or the value of __hash__() */
  hash_t h = s.b.__hash__();
  if (nondet_boolean()) s.b.hash_ = 0; else s.b.hash_ = h;      /* no ?: — the front end types "c ? 0 : ulong" as int */
}
static bool has_nan(const Slot &s)
{
  return (s.kind == 1 && isnan_d(s.rd.i)) || (s.kind == 2 && (isnan_d(s.cd.i.re) || isnan_d(s.cd.i.im)));
}
#ifndef CLS
#define CLS 0
#endif
#if CLS == 1
#define CN "RealDouble"
#elif CLS == 2
#define CN "ComplexDouble"
#elif CLS == 3
#define CN "Integer"
#elif CLS == 4
#define CN "Rational"
#elif CLS == 5
#define CN "Complex"
#elif CLS == 6
#define CN "NaN"
#else
#define CN "mixed_leaf_classes"
#endif
static int pick_kind()
{
#if CLS != 0
  return CLS;
#else
  int k = nondet_int(); __CPROVER_assume(k >= 1 && k <= 6); return k;
#endif
}
static void rank_axioms(const Slot &a, const Slot &b)
{
  __CPROVER_assume(RANK_OK(a.ra.i, b.ra.i));
  __CPROVER_assume(RANK_OK(a.co.real_, b.co.real_) && RANK_OK(a.co.imaginary_, b.co.imaginary_));
}

/* KF_C02_NAN_DOUBLE: known finding — ordering obligations are verified on the complement of
   "an operand holds a NaN double" when the finding is listed in KNOWN_FINDINGS.txt            */
#ifdef KF_C02_NAN_DOUBLE
#define NANCLASS(x) (x)
#else
#define NANCLASS(x) false
#endif

extern "C" void h_c01(void)
{
  Slot A, B;
  int ka = pick_kind(), kb = pick_kind();
  mk(A, ka); mk(B, kb); rank_axioms(A, B);
  bool pb_is_a = nondet_boolean();
  const Basic *pa = A.p, *pb = pb_is_a ? A.p : B.p;
  bool e = eq(*pa, *pb);
  hash_t ha = pa->hash(), hb = pb->hash();
  OBL("C01." CN ".eq_implies_equal_hash", !e || ha == hb);
  OBL("C01." CN ".Basic_hash.cache_consistent", pa->hash_ == ha && pa->hash() == ha);
  OBL("C01." CN ".eq_symmetric", e == eq(*pb, *pa));
  REACHABLE("h_c01");
}

extern "C" void h_c01_combine(void)
{
  /* hash_combine is a function of (seed, value): no read of indeterminate union bytes */
  hash_t s1 = nondet_ulong(), s2 = s1; double d = nondet_double(); long long v = nondet_long();
  hash_t w = nondet_ulong();
  hash_combine<double>(s1, d); hash_combine<double>(s2, d);
  OBL("C01.hash_combine.double_is_function", s1 == s2);
  hash_combine<long long int>(s1, v); hash_combine<long long int>(s2, v);
  OBL("C01.hash_combine.integral_is_function", s1 == s2);
  hash_combine<hash_t>(s1, w); hash_combine<hash_t>(s2, w);
  OBL("C01.hash_combine.hash_t_is_function", s1 == s2);
  REACHABLE("h_c01_combine");
}

extern "C" void h_c02(void)
{
  Slot A, B, C;
  int ka = pick_kind(), kb = pick_kind(), kc = pick_kind();
  mk(A, ka); mk(B, kb); mk(C, kc);
  rank_axioms(A, B); rank_axioms(B, C); rank_axioms(A, C);
  bool pb_is_a = nondet_boolean();
  const Basic *pa = A.p, *pb = pb_is_a ? A.p : B.p, *pc = C.p;
  bool nanc = NANCLASS(has_nan(A) || has_nan(B) || has_nan(C));
  int ab = pa->__cmp__(*pb), ba = pb->__cmp__(*pa), bc = pb->__cmp__(*pc), ac = pa->__cmp__(*pc);
  bool e = eq(*pa, *pb);
  OBL("C02." CN ".cmp.range", ab == -1 || ab == 0 || ab == 1);
  OBL("C02." CN ".cmp.zero_iff_eq", nanc || ((ab == 0) == e));
  OBL("C02." CN ".cmp.antisymmetric", nanc || ab == -ba);
  OBL("C02." CN ".cmp.transitive", nanc || !(ab <= 0 && bc <= 0) || ac <= 0);
  OBL("C02." CN ".cmp.transitive_strict", nanc || !(ab < 0 && bc <= 0) || ac < 0);
  REACHABLE("h_c02");
}

"""extraction description shared by C01 and C02 (leaf number classes)"""
from vf import Piece, R

TOK = [
    R(r'is_a<(\w+)>\(', r'is_a_\1(', n='*', regex=True, why="template syntax -> stub predicate on type_code_"),
    R(r'down_cast<const (\w+) &>\(', r'as_\1(', n='*', regex=True, why="checked downcast -> stub accessor"),
    R(r'throw (\w+)\(([^;]*)\);', r'VERIF_THROW(\1);', n='*', regex=True, why="exception object dropped (DESIGN §8)"),
]

def hc_pieces():
    integral = r'inline void hash_combine_impl\(\s*hash_t &seed, const T &v,\s*typename std::enable_if<std::is_integral<T>::value>::type \* = nullptr\)'
    hdr = R(r'template <typename T>\s*inline void hash_combine_impl\(\s*hash_t &seed, const T &v,\s*typename std::enable_if<std::is_integral<T>::value>::type \* = nullptr\)',
            None, n=1, regex=True)
    def inst(t):
        return Piece('symengine/basic-inl.h', r'template <typename T>\s*' + integral,
                     rules=[R(hdr.pat, 'inline void hash_combine_impl(hash_t &seed, const %s &v)' % t, n=1, regex=True,
                              why="SFINAE template header -> the instantiation T=%s that /repo uses" % t)],
                     name="hash_combine_impl<%s>" % t)
    return [
        inst('hash_t'), inst('long long int'),
        Piece('symengine/basic-inl.h', r'template <class T>\s*inline void hash_combine\(hash_t &seed, const T &v\)',
              rules=[R(r'\{.*\}', ';', n=1, regex=True, why="forward declaration of the template (body emitted below, verbatim)")],
              name="hash_combine (declaration)"),
        Piece('symengine/basic-inl.h', r'inline void hash_combine_impl\(hash_t &seed, const double &s\)'),
        Piece('symengine/basic-inl.h', r'template <class T>\s*inline void hash_combine\(hash_t &seed, const T &v\)'),
    ]

def leaf_pieces():
    ps = []
    for cls, f in (('RealDouble', 'real_double.cpp'), ('ComplexDouble', 'complex_double.cpp'), ('Integer', 'integer.cpp'),
                   ('Rational', 'rational.cpp'), ('Complex', 'complex.cpp'), ('NaN', 'nan.cpp')):
        ps.append(Piece('symengine/' + f, r'hash_t %s::__hash__\(\) const' % cls, rules=TOK))
        ps.append(Piece('symengine/' + f, r'bool %s::__eq__\(const Basic &o\) const' % cls, rules=TOK))
        ps.append(Piece('symengine/' + f, r'int %s::compare\(const Basic &o\) const' % cls, rules=TOK))
    ps.append(Piece('symengine/basic-inl.h', r'inline hash_t Basic::hash\(\) const'))
    ps.append(Piece('symengine/basic-inl.h', r'inline bool eq\(const Basic &a, const Basic &b\)'))
    ps.append(Piece('symengine/basic.cpp', r'int Basic::__cmp__\(const Basic &o\) const',
                    rules=[R('auto a = ', 'TypeID a = ', n=1, why="auto is not deduced by CBMC; get_type_code() returns TypeID"),
                           R('auto b = ', 'TypeID b = ', n=1)]))
    return ps

TRUSTED = [
    "stub integer_class/rational_class (contracts/common/leafnum.cpp): GMP ==, <, mp_get_ui/si, mp_sign on one machine word; "
    "rational < is an assumed strict total order consistent with == (ghost rank)",
    "stub std::complex<double>: operator== component-wise",
    "virtual dispatch of __hash__/__eq__/compare modelled by a switch on type_code_ (vtable not modelled)",
    "class data layout: stubs carry the same data members as the real headers (i; real_, imaginary_)",
]

"""extraction description shared by C01 and C02 (leaf number classes)"""
from vf import Piece, R

TOK = [
    R(r'is_a<(\w+)>\(', r'is_a_\1(', n='*', regex=True, why="template syntax -> stub predicate on type_code_"),
    R(r'down_cast<const (\w+) &>\(', r'as_\1(', n='*', regex=True, why="checked downcast -> stub accessor"),
    R(r'throw (\w+)\(([^;]*)\);', r'VERIF_THROW(\1);', n='*', regex=True, why="exception object dropped (DESIGN §8)"),
]

def hc_pieces():
    integral = r'inline void hash_combine_impl\(\s*hash_t &seed, const T &v,\s*typename std::enable_if<std::is_integral<T>::value>::type \* = nullptr\)'
    hdr = R(r'template <typename T>\s*inline void hash_combine_impl\(\s*hash_t &seed, const T &v,\s*typename std::enable_if<std::is_integral<T>::value>::type \* = nullptr\)',
            None, n=1, regex=True)
    def inst(t):
        return Piece('symengine/basic-inl.h', r'template <typename T>\s*' + integral,
                     rules=[R(hdr.pat, 'inline void hash_combine_impl(hash_t &seed, const %s &v)' % t, n=1, regex=True,
                              why="SFINAE template header -> the instantiation T=%s that /repo uses" % t)],
                     name="hash_combine_impl<%s>" % t)
    return [
        inst('hash_t'), inst('long long int'),
        Piece('symengine/basic-inl.h', r'template <class T>\s*inline void hash_combine\(hash_t &seed, const T &v\)',
              rules=[R(r'\{.*\}', ';', n=1, regex=True, why="forward declaration of the template (body emitted below, verbatim)")],
              name="hash_combine (declaration)"),
        Piece('symengine/basic-inl.h', r'inline void hash_combine_impl\(hash_t &seed, const double &s\)'),
        Piece('symengine/basic-inl.h', r'template <class T>\s*inline void hash_combine\(hash_t &seed, const T &v\)'),
    ]

def leaf_pieces():
    ps = []
    for cls, f in (('RealDouble', 'real_double.cpp'), ('ComplexDouble', 'complex_double.cpp'), ('Integer', 'integer.cpp'),
                   ('Rational', 'rational.cpp'), ('Complex', 'complex.cpp'), ('NaN', 'nan.cpp')):
        ps.append(Piece('symengine/' + f, r'hash_t %s::__hash__\(\) const' % cls, rules=TOK))
        ps.append(Piece('symengine/' + f, r'bool %s::__eq__\(const Basic &o\) const' % cls, rules=TOK))
        ps.append(Piece('symengine/' + f, r'int %s::compare\(const Basic &o\) const' % cls, rules=TOK))
    ps.append(Piece('symengine/basic-inl.h', r'inline hash_t Basic::hash\(\) const'))
    ps.append(Piece('symengine/basic-inl.h', r'inline bool eq\(const Basic &a, const Basic &b\)'))
    ps.append(Piece('symengine/basic.cpp', r'int Basic::__cmp__\(const Basic &o\) const',
                    rules=[R('auto a = ', 'TypeID a = ', n=1, why="auto is not deduced by CBMC; get_type_code() returns TypeID"),
                           R('auto b = ', 'TypeID b = ', n=1)]))
    return ps

TRUSTED = [
    "stub integer_class/rational_class (contracts/common/leafnum.cpp): GMP ==, <, mp_get_ui/si, mp_sign on one machine word; "
    "rational < is an assumed strict total order consistent with == (ghost rank)",
    "stub std::complex<double>: operator== component-wise",
    "virtual dispatch of __hash__/__eq__/compare modelled by a switch on type_code_ (vtable not modelled)",
    "class data layout: stubs carry the same data members as the real headers (i; real_, imaginary_)",
]

# ---- composite classes (unit 'composite', shared by C01 and C02) -------------------------------------------------
CTOK = [
    R(r'RCP<const Basic>', 'RCPBasic', n='*', why="RCP<const Basic> -> raw pointer typedef"),
    R(r'is_a<(\w+)>\(', r'is_a_\1(', n='*', regex=True, why="template syntax -> stub predicate on type_code_"),
    R(r'down_cast<const (\w+) &>\(', r'as_\1(', n='*', regex=True, why="checked downcast -> stub accessor"),
    R(r'\) const override\b', ') const', n='*', regex=True, why="'override' is rejected by the front end"),
]

def _inclass(relpath, cls_regex, member_regex, name):
    """select one in-class member definition from the class body region"""
    return Piece(relpath, cls_regex, region_end=r'^\};',
                 rules=[R(r'\A.*?(\n    (?:inline )?' + member_regex + r'\s*\{.*?\n    \}).*\Z', r'\1\n', n=1, regex=True,
                          why="select the in-class definition of %s from the class body" % name)] + CTOK, name=name)

def composite_pieces():
    FH = 'symengine/functions.h'
    two = [_inclass(FH, r'class TwoArgBasic : public BaseClass', sig, 'TwoArgBasic::' + nm) for sig, nm in (
        (r'hash_t __hash__\(\) const override', '__hash__'), (r'RCP<const Basic> get_arg1\(\) const', 'get_arg1'), (r'RCP<const Basic> get_arg2\(\) const', 'get_arg2'),
        (r'bool __eq__\(const Basic &o\) const override', '__eq__'), (r'int compare\(const Basic &o\) const override', 'compare'))]
    one = [_inclass(FH, r'class OneArgFunction : public Function', sig, 'OneArgFunction::' + nm) for sig, nm in (
        (r'hash_t __hash__\(\) const override', '__hash__'), (r'RCP<const Basic> get_arg\(\) const', 'get_arg'),
        (r'bool __eq__\(const Basic &o\) const override', '__eq__'), (r'int compare\(const Basic &o\) const override', 'compare'))]
    def RF(it):
        return R(r'for \(const auto &a : (\w+)\)\s*\n\s*([^;{}]*;)', r'for (%s a__i = \1.begin(); a__i != \1.end(); ++a__i) { RCPBasic a = *a__i; \2 }' % it, n=1, regex=True,
                 why="brace-less range-for over the argument container -> iterator loop over the stub, body verbatim")
    multi = [_inclass(FH, r'class MultiArgFunction : public Function', sig, 'MultiArgFunction::' + nm) for sig, nm in (
        (r'hash_t __hash__\(\) const override', '__hash__'), (r'const vec_basic &get_vec\(\) const', 'get_vec'),
        (r'bool __eq__\(const Basic &o\) const override', '__eq__'), (r'int compare\(const Basic &o\) const override', 'compare'))]
    multi[0].rules.append(RF('vecit'))
    multi[1].rules.append(R('inline const vec_basic &get_vec() const', 'inline vec3 get_vec() const', n=1, why="returning const T& from a const member is mis-typed by the front end: by value (explicit copy constructor of the stub)"))
    comp = []
    for cls, f in (('Pow', 'pow.cpp'), ('Interval', 'sets.cpp')):
        comp.append(Piece('symengine/' + f, r'hash_t %s::__hash__\(\) const' % cls, rules=CTOK))
        comp.append(Piece('symengine/' + f, r'bool %s::__eq__\(const Basic &o\) const' % cls, rules=CTOK))
    comp.append(Piece('symengine/pow.cpp', r'int Pow::compare\(const Basic &o\) const', rules=CTOK))
    comp.append(Piece('symengine/sets.cpp', r'int Interval::compare\(const Basic &s\) const',
                      rules=[R(r'auto (\w+) = (\w+)->__cmp__', r'int \1 = \2->__cmp__', n='*', regex=True, why="auto -> int (the return type of __cmp__)")] + CTOK))
    for cls, f in (('Complement', 'sets.cpp'), ('Contains', 'logic.cpp')):
        comp.append(Piece('symengine/' + f, r'hash_t %s::__hash__\(\) const' % cls, rules=CTOK))
        comp.append(Piece('symengine/' + f, r'bool %s::__eq__\(const Basic &o\) const' % cls, rules=CTOK))
        comp.append(Piece('symengine/' + f, r'int %s::compare\(const Basic &o\) const' % cls, rules=CTOK))
    comp.append(Piece('symengine/logic.cpp', r'RCP<const Basic> Contains::get_expr\(\) const', rules=CTOK))
    comp.append(Piece('symengine/logic.cpp', r'RCP<const Set> Contains::get_set\(\) const', rules=[R('RCP<const Set>', 'RCPBasic', n=1, why="RCP<const Set> -> raw pointer typedef")] + CTOK))
    comp.append(Piece('symengine/add.cpp', r'hash_t Add::__hash__\(\) const',
                      rules=[R('for (const auto &p : dict_) {', 'for (unsigned p__k = 0; p__k < dict_.size(); p__k++) { umap_pair p = dict_.at(p__k);', n=1,
                               why="range-for over the unordered term dictionary -> index loop over the stub (iteration order is an arbitrary permutation), body verbatim")] + CTOK))
    comp.append(Piece('symengine/add.cpp', r'bool Add::__eq__\(const Basic &o\) const', rules=CTOK))
    comp.append(Piece('symengine/add.cpp', r'int Add::compare\(const Basic &o\) const',
                      rules=[R('map_basic_num adict(dict_.begin(), dict_.end());', 'map_basic_basic adict; sorted_map(dict_, adict);', n=1, why="std::map range constructor -> its assumed contract (pairs sorted by the real RCPBasicKeyLess)"),
                             R('map_basic_num bdict(s.dict_.begin(), s.dict_.end());', 'map_basic_basic bdict; sorted_map(s.dict_, bdict);', n=1)] + CTOK))
    comp.append(Piece('symengine/sets.cpp', r'hash_t FiniteSet::__hash__\(\) const', rules=[RF('setit')] + CTOK))
    comp.append(Piece('symengine/sets.cpp', r'bool FiniteSet::__eq__\(const Basic &o\) const', rules=CTOK))
    comp.append(Piece('symengine/sets.cpp', r'int FiniteSet::compare\(const Basic &o\) const', rules=CTOK))
    comp.append(Piece('symengine/mul.cpp', r'hash_t Mul::__hash__\(\) const',
                      rules=[R('for (const auto &p : dict_) {', 'for (mapit p__i = dict_.begin(); p__i != dict_.end(); ++p__i) { umap_pair p = *p__i;', n=1,
                               why="range-for over the ordered factor dictionary -> iterator loop over the stub, body verbatim")] + CTOK))
    comp.append(Piece('symengine/mul.cpp', r'bool Mul::__eq__\(const Basic &o\) const', rules=CTOK))
    comp.append(Piece('symengine/mul.cpp', r'int Mul::compare\(const Basic &o\) const', rules=CTOK))
    free = [Piece('symengine/basic-inl.h', r'inline hash_t Basic::hash\(\) const'),
            Piece('symengine/basic-inl.h', r'inline bool eq\(const Basic &a, const Basic &b\)'),
            Piece('symengine/basic-inl.h', r'inline bool neq\(const Basic &a, const Basic &b\)')]
    base_impl = r'template <typename T>\s*inline void hash_combine_impl\(\s*hash_t &seed, const T &v,\s*typename std::enable_if<std::is_base_of<Basic, T>::value>::type \* = nullptr\)'
    hcb = [Piece('symengine/basic-inl.h', base_impl,
                 rules=[R(base_impl, 'inline void hash_combine_impl(hash_t &seed, const Basic &v)', n=1, regex=True,
                          why="SFINAE template header -> the instantiation T=Basic")], name="hash_combine_impl<Basic>")]
    hc = [p for p in hc_pieces()]
    integral = r'template <typename T>\s*inline void hash_combine_impl\(\s*hash_t &seed, const T &v,\s*typename std::enable_if<std::is_integral<T>::value>::type \* = nullptr\)'
    hc.insert(2, Piece('symengine/basic-inl.h', integral,
                       rules=[R(integral, 'inline void hash_combine_impl(hash_t &seed, const bool &v)', n=1, regex=True, why="SFINAE template header -> the instantiation T=bool (Interval flags)")],
                       name="hash_combine_impl<bool>"))
    ucmp = r'template <typename T, typename U,\s*typename = enable_if_t<std::is_base_of<Basic, T>::value\s*and std::is_base_of<Basic, U>::value>>\s*inline int unified_compare\(const RCP<const T> &a, const RCP<const U> &b\)'
    ueq = r'template <typename T, typename U,\s*typename = enable_if_t<std::is_base_of<Basic, T>::value\s*and std::is_base_of<Basic, U>::value>>\s*inline bool unified_eq\(const RCP<const T> &a, const RCP<const U> &b\)'
    unified = [Piece('symengine/dict.h', ucmp, rules=[R(ucmp, 'inline int unified_compare(const RCPBasic &a, const RCPBasic &b)', n=1, regex=True, why="SFINAE template header -> the instantiation T=U=Basic")], name='unified_compare<RCP>'),
               Piece('symengine/dict.h', ueq, rules=[R(ueq, 'inline bool unified_eq(const RCPBasic &a, const RCPBasic &b)', n=1, regex=True, why="SFINAE template header -> the instantiation T=U=Basic")], name='unified_eq<RCP>')]
    osig = r'template <class T>\s*inline int ordered_compare\(const T &A, const T &B\)'
    ordered = [Piece('symengine/dict.h', osig, rules=[R(r'template <class T>\s*inline int ordered_compare\(const T &A, const T &B\)', 'inline int ordered_compare(const vec3 &A, const vec3 &B)', n=1, regex=True, why="template header -> the instantiation for the vector stub"),
                                                       R('auto a = A.begin();', 'vecit a = A.begin();', n=1, why="auto -> the iterator type of the stub"), R('auto b = B.begin();', 'vecit b = B.begin();', n=1),
                                                       R('auto t = unified_compare', 'int t = unified_compare', n=1, why="auto -> int")], name='ordered_compare<vector>')]
    oeq = r'template <class T>\s*inline bool ordered_eq\(const T &A, const T &B\)'
    peq = r'template <typename T, typename U>\s*inline bool unified_eq\(const std::pair<T, U> &a, const std::pair<T, U> &b\)'
    pcmp = r'template <typename T, typename U>\s*inline int unified_compare\(const std::pair<T, U> &a, const std::pair<T, U> &b\)'
    meq = r'template <typename K, typename V, typename C>\s*inline bool unified_eq\(const std::map<K, V, C> &a, const std::map<K, V, C> &b\)'
    mcmp = r'template <typename K, typename V, typename C>\s*inline int unified_compare\(const std::map<K, V, C> &a,\s*const std::map<K, V, C> &b\)'
    ordered = [
        Piece('symengine/dict.h', peq, rules=[R(peq, 'inline bool unified_eq(const umap_pair &a, const umap_pair &b)', n=1, regex=True, why="template header -> the instantiation for pair<RCP, RCP>")], name='unified_eq<pair>'),
        Piece('symengine/dict.h', pcmp, rules=[R(pcmp, 'inline int unified_compare(const umap_pair &a, const umap_pair &b)', n=1, regex=True, why="template header -> the instantiation for pair<RCP, RCP>"),
                                               R('auto t = unified_compare', 'int t = unified_compare', n=1, why="auto -> int")], name='unified_compare<pair>'),
        Piece('symengine/dict.h', oeq, rules=[R(oeq, 'inline bool ordered_eq(const map_basic_basic &A, const map_basic_basic &B)', n=1, regex=True, why="template header -> the instantiation for the ordered-map stub"),
                                              R('auto a = A.begin();', 'mapit a = A.begin();', n=1, why="auto -> the iterator type of the stub"), R('auto b = B.begin();', 'mapit b = B.begin();', n=1)], name='ordered_eq<map>'),
        Piece('symengine/dict.h', osig, rules=[R(osig, 'inline int ordered_compare(const map_basic_basic &A, const map_basic_basic &B)', n=1, regex=True, why="template header -> the instantiation for the ordered-map stub"),
                                               R('auto a = A.begin();', 'mapit a = A.begin();', n=1, why="auto -> the iterator type of the stub"), R('auto b = B.begin();', 'mapit b = B.begin();', n=1),
                                               R('auto t = unified_compare', 'int t = unified_compare', n=1, why="auto -> int")], name='ordered_compare<map>'),
        Piece('symengine/dict.h', meq, rules=[R(meq, 'inline bool unified_eq(const map_basic_basic &a, const map_basic_basic &b)', n=1, regex=True, why="template header -> the instantiation for map_basic_basic")], name='unified_eq<map>'),
        Piece('symengine/dict.h', mcmp, rules=[R(mcmp, 'inline int unified_compare(const map_basic_basic &a, const map_basic_basic &b)', n=1, regex=True, why="template header -> the instantiation for map_basic_basic")], name='unified_compare<map>'),
    ] + ordered
    veq = r'template <typename T>\s*inline bool unified_eq\(const std::vector<T> &a, const std::vector<T> &b\)'
    vcmp = r'template <typename T>\s*inline int unified_compare\(const std::vector<T> &a, const std::vector<T> &b\)'
    seq = r'template <typename T, typename U>\s*inline bool unified_eq\(const std::set<T, U> &a, const std::set<T, U> &b\)'
    scmp = r'template <typename T, typename U>\s*inline int unified_compare\(const std::set<T, U> &a, const std::set<T, U> &b\)'
    def inst_eq(t):
        it = 'vecit' if t == 'vec3' else 'setit'
        return Piece('symengine/dict.h', oeq, rules=[R(oeq, 'inline bool ordered_eq(const %s &A, const %s &B)' % (t, t), n=1, regex=True, why="template header -> the instantiation for the %s stub" % t),
                                                     R('auto a = A.begin();', '%s a = A.begin();' % it, n=1, why="auto -> the iterator type of the stub"), R('auto b = B.begin();', '%s b = B.begin();' % it, n=1)], name='ordered_eq<%s>' % t)
    ordered = ordered + [inst_eq('vec3'), inst_eq('set3'),
        Piece('symengine/dict.h', osig, rules=[R(osig, 'inline int ordered_compare(const set3 &A, const set3 &B)', n=1, regex=True, why="template header -> the instantiation for the set stub"),
                                               R('auto a = A.begin();', 'setit a = A.begin();', n=1, why="auto -> the iterator type"), R('auto b = B.begin();', 'setit b = B.begin();', n=1),
                                               R('auto t = unified_compare', 'int t = unified_compare', n=1, why="auto -> int")], name='ordered_compare<set>'),
        Piece('symengine/dict.h', veq, rules=[R(veq, 'inline bool unified_eq(const vec3 &a, const vec3 &b)', n=1, regex=True, why="template header -> vec_basic stub")], name='unified_eq<vector>'),
        Piece('symengine/dict.h', vcmp, rules=[R(vcmp, 'inline int unified_compare(const vec3 &a, const vec3 &b)', n=1, regex=True, why="template header -> vec_basic stub")], name='unified_compare<vector>'),
        Piece('symengine/dict.h', seq, rules=[R(seq, 'inline bool unified_eq(const set3 &a, const set3 &b)', n=1, regex=True, why="template header -> set_basic stub")], name='unified_eq<set>'),
        Piece('symengine/dict.h', scmp, rules=[R(scmp, 'inline int unified_compare(const set3 &a, const set3 &b)', n=1, regex=True, why="template header -> set_basic stub")], name='unified_compare<set>')]
    keyless = [Piece('symengine/basic.h', r'struct RCPBasicKeyLess \{', region_end=r'^\};', rules=CTOK, name='struct RCPBasicKeyLess')]
    return {'ordered.inc': ordered, 'keyless.inc': keyless, 'unified.inc': unified, 'hc.inc': hc, 'hcb.inc': hcb, 'free.inc': free, 'twoarg_inline.inc': two, 'onearg_inline.inc': one, 'multiarg_inline.inc': multi, 'comp.inc': comp}

COMP_TRUSTED = [
    "children of a composite are abstract objects obeying the contract C01/C02 state for every expression (eq <=> equal rank; equal rank => equal hash; __cmp__ = order of ranks)",
    "Add's unordered term dictionary is a stub of at most 2 pairs iterated in an arbitrary order; unified_eq = equality as sets of pairs under eq (assumed contract of std::unordered_map ==)",
    "virtual dispatch and the BaseClass template parameter of TwoArgBasic are modelled by a switch on the class under test",
]

def composite_unit(prop, Unit, Entry, tier='quick'):
    ents = []
    import os
    h64 = os.environ.get('VERIF_HASH64_CLASSES', 'Mul,MultiArgFunction,FiniteSet,Add' if tier == 'thorough' else '').split(',')
    if prop == 'C01' and h64 != ['']:
        # thorough tier: full-width hash_t for the classes that are narrowed to 16 bits in the quick tier (validated: 340-700 s each, Add ~28 min)
        for cls, nm in ((10, 'Mul'), (11, 'MultiArgFunction'), (12, 'FiniteSet'), (5, 'Add')):
            if nm in h64:
                ents.append(Entry('h_comp_c01', defines={'CLS': cls, 'CLSNAME': '"%s"' % nm}, route='B', timeout=3400, mem_gb=10, unwind=8, label='h_comp_c01_%s_hash64' % nm,
                                  bounds='full 64-bit hash_t; at most 2 dictionary entries / 3 container elements; any children (6 abstract objects, any sharing)'))
    for cls, nm in ((1, 'Pow'), (2, 'Interval'), (3, 'TwoArgBasic'), (4, 'OneArgFunction'), (5, 'Add'), (6, 'Complement'), (7, 'Contains'), (10, 'Mul'), (11, 'MultiArgFunction'), (12, 'FiniteSet')):
        h = 'h_comp_c01' if prop == 'C01' else 'h_comp_c02'
        d = {'CLS': cls, 'CLSNAME': '"%s"' % nm}
        if prop == 'C02' and cls == 5:
            ents.append(Entry(h, defines=d, route='B', timeout=900, mem_gb=6, unwind=8, label="%s_%s" % (h, nm),
                              bounds="at most 2 terms in the dictionary (either iteration order); any children (6 abstract objects, any sharing, hash collisions allowed)"))
            continue
        if cls in (11, 12):
            if prop == 'C01':
                d['VERIF_HASH_BITS16'] = 1
            ents.append(Entry(h, defines=d, route='B', timeout=900, mem_gb=6, unwind=8, label="%s_%s" % (h, nm),
                              bounds=("hash_t narrowed to 16 bits; " if prop == 'C01' else "") + "containers of at most 3 elements; any children (6 abstract objects, any sharing)"))
            continue
        if cls == 10:
            # same 64-bit mixing problem as Add for C01 (five chained hash_combine calls per object): 16-bit hash_t; C02 does not hash
            if prop == 'C01':
                d['VERIF_HASH_BITS16'] = 1
            ents.append(Entry(h, defines=d, route='B', timeout=900, mem_gb=6, unwind=8, label="%s_%s" % (h, nm),
                              bounds=("hash_t narrowed to 16 bits; " if prop == 'C01' else "") + "at most 2 factors in the ordered dictionary; any children (6 abstract objects, any sharing)"))
            continue
        if cls == 5:
            # the 64-bit mixing of Add::__hash__ (xor of per-term combined hashes) does not finish within 600 s on any back end:
            # bounded stand-in with hash_t narrowed to 16 bits (which fields feed the hash is what eq => hash depends on, not the width)
            d['VERIF_HASH_BITS16'] = 1
            ents.append(Entry(h, defines=d, route='B', timeout=900, mem_gb=6, unwind=8, label="%s_%s" % (h, nm),
                              bounds="hash_t narrowed to 16 bits; at most 2 terms in the dictionary (either iteration order); any children (6 abstract objects, any sharing)"))
            continue
        ents.append(Entry(h, defines=d, route='F', timeout=600, mem_gb=6, unwind=8,
                          bounds="full domain: any children (6 abstract objects, any sharing/aliasing), any flags", label="%s_%s" % (h, nm)))
    if prop == 'C02':
        ents.append(Entry('h_ordered_compare', defines={'CLS': 9, 'CLSNAME': '"ordered_compare"'}, route='B', timeout=600, mem_gb=6, unwind=8, label='h_ordered_compare',
                          bounds="containers of at most 3 elements (any children, any sharing)"))
        ents.append(Entry('h_keyless', defines={'CLS': 8, 'CLSNAME': '"RCPBasicKeyLess"'}, route='F', timeout=600, mem_gb=6, unwind=8, label='h_keyless',
                          bounds="full domain: any three expressions obeying the C01/C02 contract (6 abstract objects, any sharing, hash collisions allowed)"))
    return Unit('composite', prop, 'contracts/common/composite.cpp', composite_pieces(), ents, route='F', trusted=COMP_TRUSTED,
                assumptions=["Mul, function classes with more than two arguments, sets other than Interval, booleans, polynomials and matrices are not under contract"])

# MIntPoly (multivariate polynomial) pieces shared by C01 (eq => hash) and C02 (compare is an order consistent with eq)
from vf import Unit, Entry, Piece, R
import leafnum_pieces as L

def mpoly_unit(prop):
    MH, MC = 'symengine/polys/msymenginepoly.h', 'symengine/polys/msymenginepoly.cpp'
    eq = Piece(MH, r'^    bool __eq__\(const Basic &o\) const override', region_end=r'unified_eq\(poly_\.dict_, o_\.poly_\.dict_\)\);\s*\}\s*\}',
               rules=[R(') const override', ') const', n=1, why="'override' is rejected by the front end"),
                      R('is_a<Poly>(o)', 'is_a_Poly(o)', n=1, why="template syntax -> stub predicate"), R('const Poly &o_ = down_cast<const Poly &>(o);', 'const MIntPoly &o_ = as_Poly(o);', n=1, why="CRTP parameter Poly = MIntPoly"),
                      R('typename Container::vec_type v1, v2;', 'evec v1, v2;', n=1, why="dependent type name -> the exponent-vector stub"),
                      R('v1.resize(vars_.size(), 0);', 'v1.resize(vars_.size(), 0u);', n=1, why="literal typed for the stub overload"), R('v2.resize(o_.vars_.size(), 0);', 'v2.resize(o_.vars_.size(), 0u);', n=1)],
               name='MSymEnginePoly<Container, Poly>::__eq__ [in-class, instantiated for MIntPoly]')
    cn = Piece(MH, r'^    bool is_constant\(\) const', rules=[
        R(r'for \(auto e : ([^\n]+?)\)\s*\n\s*if \(([^\n]*)\)\s*\n\s*return false;',
          r'{ evec e__v = \1; for (unsigned e__k = 0; e__k < e__v.size(); e__k++) { unsigned e = e__v.d[e__k]; if (\2) return false; } }', n=1, regex=True,
          why="range-for over an exponent vector -> index loop (container expression and tested condition kept verbatim)"),
        R(r'for \(auto &p : poly_\.dict_\)\s*(\{ evec e__v[^\n]*\})', r'for (unsigned p__k = 0; p__k < poly_.dict_.size(); p__k++) { term p = poly_.dict_.at(p__k); \1 }', n='*', regex=True,
          why="range-for over the term dictionary around it -> index loop")], name='MSymEnginePoly<Container, Poly>::is_constant [in-class]')
    hs = Piece(MC, r'hash_t MIntPoly::__hash__\(\) const', rules=[
        R(r'for \(auto &p : get_poly\(\)\.dict_\)\s*\n\s*([^;{}]*;)', r'{ mdict c__d = get_poly().dict_; for (unsigned c__k = 0; c__k < c__d.size(); c__k++) { term p = c__d.at(c__k); \1 } }', n='*', regex=True,
          why="brace-less range-for over the term dictionary (the constant branch) -> index loop; absent in older text"),
        R(r'for \(auto var : get_vars\(\)\)\s*\n\s*([^;{}]*;)', r'{ vset v__s = get_vars(); for (unsigned v__k = 0; v__k < v__s.size(); v__k++) { varobj v__o = v__s.obj(v__k); varobj *var = &v__o; \1 } }', n=1, regex=True,
          why="range-for over the generator set -> index loop over the stub, body verbatim"),
        R('hash_combine<std::string>(', 'hash_combine_str(', n='*', why="hashing a printed name -> opaque word per printed object"),
        R('hash_combine<Basic>(', 'hash_combine<varobj>(', n='*', why="hashing a generator through Basic::hash -> the children's contract (one word per eq-class)"),
        R('for (auto &p : get_poly().dict_) {', 'mdict d__p = get_poly().dict_; for (unsigned p__k = 0; p__k < d__p.size(); p__k++) { term p = d__p.at(p__k);', n=1, why="range-for over the unordered term dictionary -> index loop in an arbitrary order"),
        R('vec_hash<vec_uint>()(p.first)', 'vec_hash_evec(p.first)', n=1, why="function object of a class template -> the instantiated function")])
    vh = Piece('symengine/basic-inl.h', r'template <typename T>\s*hash_t vec_hash<T>::operator\(\)\(const T &v\) const', rules=[
        R(r'template <typename T>\s*hash_t vec_hash<T>::operator\(\)\(const T &v\) const', 'inline hash_t vec_hash_evec(const evec &v)', n=1, regex=True, why="member of a class template -> function for T = exponent vector"),
        R('for (auto i : v)\n        hash_combine<typename T::value_type>(h, i);', 'for (unsigned i__k = 0; i__k < v.size(); i__k++)\n        hash_combine<unsigned>(h, v.d[i__k]);', n=1, why="range-for over the vector; T::value_type = unsigned")])
    cm = Piece(MH, r'^    int compare\(const Basic &o\) const override', rules=[
        R(') const override', ') const', n=1, why="'override' is rejected by the front end"),
        R('is_a<Poly>(o)', 'is_a_Poly(o)', n='*', why="template syntax -> stub predicate"),
        R('const Poly &s = down_cast<const Poly &>(o);', 'const MIntPoly &s = as_Poly(o);', n=1, why="CRTP parameter Poly = MIntPoly")],
        name='MSymEnginePoly<Container, Poly>::compare [in-class, instantiated for MIntPoly]')
    hcp = L.hc_pieces()
    integral = r'template <typename T>\s*inline void hash_combine_impl\(\s*hash_t &seed, const T &v,\s*typename std::enable_if<std::is_integral<T>::value>::type \* = nullptr\)'
    hcp.insert(2, Piece('symengine/basic-inl.h', integral, rules=[R(integral, 'inline void hash_combine_impl(hash_t &seed, const unsigned &v)', n=1, regex=True, why="SFINAE template header -> the instantiation T=unsigned")], name='hash_combine_impl<unsigned>'))
    pieces = {'hc.inc': hcp, 'vechash.inc': [vh], 'mpoly_const.inc': [cn], 'mpoly_eq.inc': [eq], 'mpoly_hash.inc': [hs]}
    trusted = ["variable set / term dictionary / exponent vector stubs; hashing a variable name mixes an opaque word; unified_eq on sets and unordered maps is equality as sets (std)"]
    if prop == 'C01':
        ents = [Entry('h_mpoly', route='B', timeout=900, unwind=9, mem_gb=6, bounds="polynomials with at most 2 terms in at most 2 of 4 variables, exponents <= 3, any non-zero one-word coefficients")]
    else:
        pieces['mpoly_cmp.inc'] = [cm]
        trusted.append("unified_compare on the variable set (ordered_compare with the symbols' __cmp__, an assumed total order) and on the term dictionary "
                       "(unordered_compare: keys sorted lexicographically, then key/value comparison) are stubs written from dict.h, not extracted")
        ents = [Entry('h_mpoly_cmp', route='B', timeout=900, unwind=9, mem_gb=6, defines={'MPOLY_CMP': 1},
                      bounds="three polynomials with at most 2 terms in at most 2 of 4 variables, exponents <= 3, any non-zero one-word coefficients")]
    return Unit('mpoly', prop, 'contracts/C01/mpoly.cpp', pieces, ents, route='B', trusted=trusted,
                assumptions=["MExprPoly (Expression coefficients) and polynomials with more terms or variables are not covered"])

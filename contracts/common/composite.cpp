/* Route F unit shared by C01 and C02: composite expression classes whose __hash__/__eq__/compare are defined from
   their children — TwoArgBasic<> and OneArgFunction (functions.h, in-class), Pow (pow.cpp), Interval (sets.cpp),
   Add (add.cpp: __hash__/__eq__ over the term dictionary) — real text in comp.inc / *_inline.inc.
   Callers are checked against the CALLEE CONTRACT of the children: a child is an abstract object {type, rank, hash}
   with  eq(a,b) <=> equal rank,  equal rank => equal hash and type,  a.__cmp__(b) = three-way order of the ranks
   (the contract C01/C02 state for every expression; proved for the leaf number classes in unit 'leafnum').
   Obligations: the parent again satisfies that contract (eq => equal hash; compare in {-1,0,1}, zero iff eq,
   antisymmetric, transitive).  Children may be shared between parents (same object) or distinct objects of equal rank. */
#include "core.h"
int verif_thrown; bool verif_may_throw;
struct NotImplementedError {};
#ifndef ADD_TERMS
#define ADD_TERMS 2
#endif
struct Pow; struct Interval; struct TwoArgBasic; struct OneArgFunction; struct Add; struct Complement; struct Contains; struct Mul; struct MultiArgFunction; struct FiniteSet;
struct Basic {
  TypeID type_code_;
  long rank; hash_t h_; bool zero_;          /* ghost contract data of an abstract child */
  mutable hash_t hash_;
  const Pow *pow_; const Interval *iv_; const TwoArgBasic *ta_; const OneArgFunction *oa_; const Add *add_; const Complement *cm_; const Contains *ct_; const Mul *mul_; const MultiArgFunction *ma_; const FiniteSet *fs_;
  bool composite;
  TypeID get_type_code() const { return type_code_; }
  hash_t __hash__() const;
  bool __eq__(const Basic &o) const;
  int compare(const Basic &o) const;
  hash_t hash() const;                    /* extracted (basic-inl.h) */
  int __cmp__(const Basic &o) const;
  bool is_zero() const { return zero_; }  /* Number::is_zero of an abstract numeric child */
};
typedef Basic *RCPBasic;      /* non-const: "const T *" results are mis-typed by the front end */
#include "hc.inc"
/* hash_combine_impl for T derived from Basic: instantiated below from the real template text (hcb.inc) */
inline void hash_combine_impl(hash_t &seed, const Basic &v);
#include "hcb.inc"
inline bool is_same_type(const Basic &a, const Basic &b) { return a.get_type_code() == b.get_type_code(); }
#include "free.inc"            /* eq, neq, Basic::hash */
/* term dictionary of Add: at most 2 (term, coefficient) pairs; iteration order is an arbitrary permutation (unordered_map) */
struct umap_pair { RCPBasic first, second; };
struct umap_basic_num {
  umap_pair d[2]; unsigned n; bool rev;
  unsigned size() const { return n; }
  umap_pair at(unsigned k) const { umap_pair r; unsigned i = (rev && n == 2) ? 1 - k : k; r.first = d[i < 2 ? i : 0].first; r.second = d[i < 2 ? i : 0].second; return r; }     /* by value: returning const T& from a const member is mis-typed by the front end */
};
/* ASSUMED CONTRACT of unified_eq on unordered maps: equal as sets of (key, value) pairs under eq (keys are pairwise non-eq inside one map) */
static bool pair_eq(const umap_pair &a, const umap_pair &b) { return a.first->rank == b.first->rank && a.second->rank == b.second->rank; }
inline bool unified_eq(const umap_basic_num &a, const umap_basic_num &b)
{
  if (a.n != b.n) return false;
  if (a.n == 0) return true;
  if (a.n == 1) return pair_eq(a.d[0], b.d[0]);
  return (pair_eq(a.d[0], b.d[0]) && pair_eq(a.d[1], b.d[1])) || (pair_eq(a.d[0], b.d[1]) && pair_eq(a.d[1], b.d[0]));
}
/* factor dictionary of Mul (map_basic_basic, an ORDERED std::map): at most 2 (base, exponent) pairs in key order, pointer iterators */
struct map_basic_basic;
struct mapit { map_basic_basic *m; unsigned k; umap_pair operator*() const; mapit &operator++() { k++; return *this; } bool operator!=(const mapit &o) const { return k != o.k; } };   /* index iterator: pointers into an array of structs abort CBMC 6.11 */
struct map_basic_basic {
  umap_pair d[2]; unsigned n; unsigned size() const { return n; }
  umap_pair at(unsigned k) const { umap_pair r; r.first = d[k < 2 ? k : 0].first; r.second = d[k < 2 ? k : 0].second; return r; }
  mapit begin() const { mapit i; i.m = (map_basic_basic *)this; i.k = 0; return i; } mapit end() const { mapit i; i.m = (map_basic_basic *)this; i.k = n; return i; }
};
inline umap_pair mapit::operator*() const { return m->at(k); }
#include "unified.inc"          /* unified_compare / unified_eq for RCP operands: real template text of dict.h, instantiated for Basic */
struct Complement { RCPBasic universe_, container_; hash_t __hash__() const; bool __eq__(const Basic &o) const; int compare(const Basic &o) const; };
struct Contains { RCPBasic expr_, set_; hash_t __hash__() const; bool __eq__(const Basic &o) const; int compare(const Basic &o) const; RCPBasic get_expr() const; RCPBasic get_set() const; };
inline bool is_a_Complement(const Basic &b) { return b.type_code_ == SYMENGINE_COMPLEMENT; }
inline bool is_a_Contains(const Basic &b) { return b.type_code_ == SYMENGINE_CONTAINS; }
inline const Complement &as_Complement(const Basic &b) { return *b.cm_; }
inline const Contains &as_Contains(const Basic &b) { return *b.ct_; }
struct Pow { RCPBasic base_, exp_; hash_t __hash__() const; bool __eq__(const Basic &o) const; int compare(const Basic &o) const; };
struct Interval { RCPBasic start_, end_; bool left_open_, right_open_; hash_t __hash__() const; bool __eq__(const Basic &o) const; int compare(const Basic &o) const; };
struct Add { RCPBasic coef_; umap_basic_num dict_; hash_t __hash__() const; bool __eq__(const Basic &o) const; int compare(const Basic &o) const; };
struct Mul { RCPBasic coef_; map_basic_basic dict_; hash_t __hash__() const; bool __eq__(const Basic &o) const; int compare(const Basic &o) const; };
/* type tests a maintenance edit may use on a child */
#define IS_A_CODE(C, code) inline bool is_a_##C(const Basic &b) { return b.type_code_ == code; }
IS_A_CODE(Infty, SYMENGINE_INFTY) IS_A_CODE(Integer, SYMENGINE_INTEGER) IS_A_CODE(Rational, SYMENGINE_RATIONAL) IS_A_CODE(RealDouble, SYMENGINE_REAL_DOUBLE) IS_A_CODE(Symbol, SYMENGINE_SYMBOL) IS_A_CODE(NaN, SYMENGINE_NOT_A_NUMBER)
inline bool is_a_Number(const Basic &b) { return b.type_code_ <= SYMENGINE_NUMBER_WRAPPER; }
inline bool is_a_Pow(const Basic &b) { return b.type_code_ == SYMENGINE_POW; }
inline bool is_a_Interval(const Basic &b) { return b.type_code_ == SYMENGINE_INTERVAL; }
inline bool is_a_Add(const Basic &b) { return b.type_code_ == SYMENGINE_ADD; }
inline const Pow &as_Pow(const Basic &b) { return *b.pow_; }
inline const Interval &as_Interval(const Basic &b) { return *b.iv_; }
inline const Add &as_Add(const Basic &b) { return *b.add_; }
inline bool is_a_Mul(const Basic &b) { return b.type_code_ == SYMENGINE_MUL; }
inline const Mul &as_Mul(const Basic &b) { return *b.mul_; }
struct TwoArgBasic {
  RCPBasic a_, b_; const Basic *self_;
  TypeID get_type_code() const { return self_->type_code_; }
#include "twoarg_inline.inc"
};
struct OneArgFunction {
  RCPBasic arg_; const Basic *self_;
  TypeID get_type_code() const { return self_->type_code_; }
#include "onearg_inline.inc"
};
inline bool is_same_type(const TwoArgBasic &a, const Basic &b) { return a.get_type_code() == b.get_type_code(); }
inline bool is_same_type(const OneArgFunction &a, const Basic &b) { return a.get_type_code() == b.get_type_code(); }
inline const TwoArgBasic &as_TwoArgBasic(const Basic &b) { return *b.ta_; }
inline const OneArgFunction &as_OneArgFunction(const Basic &b) { return *b.oa_; }
/* std::vector<RCP<const Basic>> (argument lists, sets): at most 3 elements, pointer iterators */
/* index iterators (pointers into member arrays with a symbolic end offset abort CBMC 6.11 when the container is nested in another object) */
struct vec3; struct set3;
struct vecit { vec3 *m; unsigned k; RCPBasic operator*() const; vecit &operator++() { k++; return *this; } bool operator!=(const vecit &o) const { return k != o.k; } };
struct setit { set3 *m; unsigned k; RCPBasic operator*() const; setit &operator++() { k++; return *this; } bool operator!=(const setit &o) const { return k != o.k; } };
struct vec3 { RCPBasic d[3]; unsigned n; vec3() { n = 0; d[0] = 0; d[1] = 0; d[2] = 0; } vec3(const vec3 &o) { n = o.n; d[0] = o.d[0]; d[1] = o.d[1]; d[2] = o.d[2]; } vec3 &operator=(const vec3 &o) { n = o.n; d[0] = o.d[0]; d[1] = o.d[1]; d[2] = o.d[2]; return *this; }
  unsigned size() const { return n; } RCPBasic at(unsigned k) const { return d[k < 3 ? k : 0]; }
  vecit begin() const { vecit i; i.m = (vec3 *)this; i.k = 0; return i; } vecit end() const { vecit i; i.m = (vec3 *)this; i.k = n; return i; } };
/* set_basic (std::set<RCP, RCPBasicKeyLess>): at most 3 elements in key order; a type of its own so that the set overloads of dict.h are selected */
struct set3 { RCPBasic d[3]; unsigned n; set3() { n = 0; d[0] = 0; d[1] = 0; d[2] = 0; } set3(const set3 &o) { n = o.n; d[0] = o.d[0]; d[1] = o.d[1]; d[2] = o.d[2]; } set3 &operator=(const set3 &o) { n = o.n; d[0] = o.d[0]; d[1] = o.d[1]; d[2] = o.d[2]; return *this; }
  unsigned size() const { return n; } RCPBasic at(unsigned k) const { return d[k < 3 ? k : 0]; }
  setit begin() const { setit i; i.m = (set3 *)this; i.k = 0; return i; } setit end() const { setit i; i.m = (set3 *)this; i.k = n; return i; } };
inline RCPBasic vecit::operator*() const { return m->at(k); }
inline RCPBasic setit::operator*() const { return m->at(k); }
#include "ordered.inc"       /* ordered_compare (dict.h), instantiated for the vector stub; ordered_eq / ordered_compare / pair and map overloads for the Mul dictionary */
struct MultiArgFunction {
  vec3 arg_; const Basic *self_;
  TypeID get_type_code() const { return self_->type_code_; }
#include "multiarg_inline.inc"
};
inline bool is_same_type(const MultiArgFunction &a, const Basic &b) { return a.get_type_code() == b.get_type_code(); }
inline const MultiArgFunction &as_MultiArgFunction(const Basic &b) { return *b.ma_; }
struct FiniteSet { set3 container_; hash_t __hash__() const; bool __eq__(const Basic &o) const; int compare(const Basic &o) const; };
inline bool is_a_FiniteSet(const Basic &b) { return b.type_code_ == SYMENGINE_FINITESET; }
inline const FiniteSet &as_FiniteSet(const Basic &b) { return *b.fs_; }
#include "keyless.inc"       /* struct RCPBasicKeyLess (basic.h), verbatim */
/* map_basic_num adict(dict_.begin(), dict_.end()) in Add::compare: ASSUMED CONTRACT of the std::map range constructor — the same pairs,
   ordered by the map's comparator, which is the real RCPBasicKeyLess text above (at most 2 entries: one comparison) */
inline void sorted_map(const umap_basic_num &u, map_basic_basic &m)
{
  RCPBasicKeyLess less; umap_pair p0 = u.at(0), p1 = u.at(1);
  m.n = u.n;
  if (u.n == 2 && less(p1.first, p0.first)) { m.d[0].first = p1.first; m.d[0].second = p1.second; m.d[1].first = p0.first; m.d[1].second = p0.second; }
  else { m.d[0].first = p0.first; m.d[0].second = p0.second; m.d[1].first = p1.first; m.d[1].second = p1.second; }
}
#include "comp.inc"
/* virtual dispatch (vtable not modelled): abstract children answer from their ghost contract data */
hash_t Basic::__hash__() const
{
  if (!composite) return h_;
  switch (CLS) { case 1: return pow_->__hash__(); case 2: return iv_->__hash__(); case 3: return ta_->__hash__(); case 4: return oa_->__hash__(); case 6: return cm_->__hash__(); case 7: return ct_->__hash__(); case 10: return mul_->__hash__(); case 11: return ma_->__hash__(); case 12: return fs_->__hash__(); default: return add_->__hash__(); }
}
bool Basic::__eq__(const Basic &o) const
{
  if (!composite) return !o.composite && rank == o.rank;
  switch (CLS) { case 1: return pow_->__eq__(o); case 2: return iv_->__eq__(o); case 3: return ta_->__eq__(o); case 4: return oa_->__eq__(o); case 6: return cm_->__eq__(o); case 7: return ct_->__eq__(o); case 10: return mul_->__eq__(o); case 11: return ma_->__eq__(o); case 12: return fs_->__eq__(o); default: return add_->__eq__(o); }
}
int Basic::compare(const Basic &o) const
{
  switch (CLS) { case 1: return pow_->compare(o); case 2: return iv_->compare(o); case 3: return ta_->compare(o); case 6: return cm_->compare(o); case 7: return ct_->compare(o); case 10: return mul_->compare(o); case 11: return ma_->compare(o); case 12: return fs_->compare(o); case 5: return add_->compare(o); default: return oa_->compare(o); }
}
int Basic::__cmp__(const Basic &o) const { return rank < o.rank ? -1 : (rank > o.rank ? 1 : 0); }     /* children only: the assumed contract */

/* ---- harness ---- */
/* six separately named child objects (pointers into an array of structs with a symbolic index abort CBMC 6.11) */
Basic c0, c1, c2, c3, c4, c5;
static RCPBasic pick(void)
{
  unsigned k = nondet_uint();
  switch (k) { case 0: return &c0; case 1: return &c1; case 2: return &c2; case 3: return &c3; case 4: return &c4; default: return &c5; }
}
/* contract data as FUNCTIONS of the rank (tables indexed by rank): equal rank => identical hash/type/flag by construction.
   Six ranks are enough for six objects: only the equality/order pattern of the ranks matters. */
hash_t HT[6]; int TT[6]; bool ZT[6];
static void any_child(Basic &c)
{
  unsigned r = nondet_uint(); __CPROVER_assume(r < 6);
  c.composite = false; c.rank = (long)r; c.h_ = HT[r]; c.type_code_ = (TypeID)TT[r]; c.zero_ = ZT[r];
  if (nondet_boolean()) c.hash_ = c.h_; else c.hash_ = 0;     /* hash cache empty or filled (no ?: — the front end types "c ? ulong : 0" as int) */
}
static void any_children(void)
{
  for (unsigned k = 0; k < 6; k++) { HT[k] = nondet_ulong(); int t = nondet_int(); __CPROVER_assume(t >= 0 && t < (int)TypeID_Count); TT[k] = t; ZT[k] = nondet_boolean(); }
  any_child(c0); any_child(c1); any_child(c2); any_child(c3); any_child(c4); any_child(c5);
}
struct Obj { Basic b; Pow p; Interval iv; TwoArgBasic ta; OneArgFunction oa; Add ad; Complement cm; Contains ct; Mul mu; MultiArgFunction ma; FiniteSet fs; };
static void any_parent(Obj &o, TypeID tc)
{
  o.b.composite = true; o.b.hash_ = 0; o.b.type_code_ = tc; o.b.pow_ = &o.p; o.b.iv_ = &o.iv; o.b.ta_ = &o.ta; o.b.oa_ = &o.oa; o.b.add_ = &o.ad; o.b.cm_ = &o.cm; o.b.ct_ = &o.ct; o.b.mul_ = &o.mu; o.b.ma_ = &o.ma; o.b.fs_ = &o.fs;
  o.cm.universe_ = pick(); o.cm.container_ = pick(); o.ct.expr_ = pick(); o.ct.set_ = pick();
  o.p.base_ = pick(); o.p.exp_ = pick();
  o.iv.start_ = pick(); o.iv.end_ = pick(); o.iv.left_open_ = nondet_boolean(); o.iv.right_open_ = nondet_boolean();
  o.ta.a_ = pick(); o.ta.b_ = pick(); o.ta.self_ = &o.b; o.oa.arg_ = pick(); o.oa.self_ = &o.b;
  o.ad.coef_ = pick(); o.ad.dict_.n = nondet_uint(); __CPROVER_assume(o.ad.dict_.n <= ADD_TERMS); o.ad.dict_.rev = nondet_boolean();
  o.ad.dict_.d[0].first = pick(); o.ad.dict_.d[0].second = pick(); o.ad.dict_.d[1].first = pick(); o.ad.dict_.d[1].second = pick();
  __CPROVER_assume(o.ad.dict_.n < 2 || o.ad.dict_.d[0].first->rank != o.ad.dict_.d[1].first->rank);        /* keys of one map are pairwise non-eq */
  o.ma.self_ = &o.b; o.ma.arg_.n = nondet_uint(); __CPROVER_assume(o.ma.arg_.n <= 3); o.ma.arg_.d[0] = pick(); o.ma.arg_.d[1] = pick(); o.ma.arg_.d[2] = pick();
  o.fs.container_.n = nondet_uint(); __CPROVER_assume(o.fs.container_.n <= 3); o.fs.container_.d[0] = pick(); o.fs.container_.d[1] = pick(); o.fs.container_.d[2] = pick();
  /* elements of one set are pairwise non-eq */
  __CPROVER_assume(o.fs.container_.n < 2 || o.fs.container_.d[0]->rank != o.fs.container_.d[1]->rank);
  __CPROVER_assume(o.fs.container_.n < 3 || (o.fs.container_.d[0]->rank != o.fs.container_.d[2]->rank && o.fs.container_.d[1]->rank != o.fs.container_.d[2]->rank));
  o.mu.coef_ = pick(); o.mu.dict_.n = nondet_uint(); __CPROVER_assume(o.mu.dict_.n <= 2);
  o.mu.dict_.d[0].first = pick(); o.mu.dict_.d[0].second = pick(); o.mu.dict_.d[1].first = pick(); o.mu.dict_.d[1].second = pick();
  __CPROVER_assume(o.mu.dict_.n < 2 || o.mu.dict_.d[0].first->rank != o.mu.dict_.d[1].first->rank);
}
static TypeID parent_code(void)
{
#if CLS == 1
  return SYMENGINE_POW;
#elif CLS == 2
  return SYMENGINE_INTERVAL;
#elif CLS == 5
  return SYMENGINE_ADD;
#elif CLS == 10
  return SYMENGINE_MUL;
#elif CLS == 12
  return SYMENGINE_FINITESET;
#elif CLS == 6
  return SYMENGINE_COMPLEMENT;
#elif CLS == 7
  return SYMENGINE_CONTAINS;
#else
  /* TwoArgBasic / OneArgFunction are bases of many classes: any type code, the same for the operands that are compared with compare() */
  int t = nondet_int(); __CPROVER_assume(t >= 0 && t < (int)TypeID_Count); return (TypeID)t;
#endif
}
extern "C" void h_comp_c01(void)
{
  any_children(); Obj X, Y; TypeID tc = parent_code(); any_parent(X, tc); any_parent(Y, nondet_boolean() ? tc : parent_code());
  verif_may_throw = false;
  bool e = eq(X.b, Y.b);
  hash_t hx = X.b.hash(), hy = Y.b.hash();
  OBL("C01." CLSNAME ".eq_implies_equal_hash", !e || hx == hy);
  OBL("C01." CLSNAME ".eq_symmetric", e == eq(Y.b, X.b));
  OBL("C01." CLSNAME ".hash_cache_returns_the_same_value", X.b.hash() == hx);
  REACHABLE("h_comp_c01");
}
#if 1
extern "C" void h_comp_c02(void)
{
  any_children(); Obj X, Y, Z; TypeID tc = parent_code(); any_parent(X, tc); any_parent(Y, tc); any_parent(Z, tc);     /* compare() is only called for equal type codes (Basic::__cmp__) */
  verif_may_throw = false;
  int xy = X.b.compare(Y.b), yx = Y.b.compare(X.b), yz = Y.b.compare(Z.b), xz = X.b.compare(Z.b);
  OBL("C02." CLSNAME ".cmp.range", xy >= -1 && xy <= 1);
  OBL("C02." CLSNAME ".cmp.zero_iff_eq", (xy == 0) == eq(X.b, Y.b));
  OBL("C02." CLSNAME ".cmp.antisymmetric", xy == -yx);
  OBL("C02." CLSNAME ".cmp.transitive", !(xy <= 0 && yz <= 0) || xz <= 0);
  OBL("C02." CLSNAME ".cmp.transitive_strict", !(xy < 0 && yz <= 0) || xz < 0);
  REACHABLE("h_comp_c02");
}
#endif

#if CLS == 8
/* RCPBasicKeyLess (the comparator of every set_basic / map_basic_*): hash order, then eq, then __cmp__ == -1.
   Given the children's contract (eq => equal hash; __cmp__ a total order consistent with eq) it is a strict weak order whose
   equivalence is eq — this is where C01 is used as a lemma for C02.  Distinct objects of equal rank and hash collisions included. */
extern "C" void h_keyless(void)
{
  any_children();
  RCPBasic x = pick(), y = pick(), z = pick();
  verif_may_throw = false;
  RCPBasicKeyLess less;
  bool xy = less(x, y), yx = less(y, x), yz = less(y, z), xz = less(x, z), zy = less(z, y);
  OBL("C02.RCPBasicKeyLess.irreflexive_on_equal_expressions", !eq(*x, *y) || (!xy && !yx));
  OBL("C02.RCPBasicKeyLess.asymmetric", !(xy && yx));
  OBL("C02.RCPBasicKeyLess.transitive", !(xy && yz) || xz);
  OBL("C02.RCPBasicKeyLess.incomparable_iff_eq", (!xy && !yx) == eq(*x, *y));
  OBL("C02.RCPBasicKeyLess.incomparability_is_transitive", !((!xy && !yx) && (!yz && !zy)) || (!xz && !less(z, x)));
  REACHABLE("h_keyless");
}
#endif

#if CLS == 9
/* ordered_compare on argument containers: shorter first, then element-wise by unified_compare — a three-way total order
   consistent with element-wise eq, given the children's contract */
static void any_vec3(vec3 &v) { v.n = nondet_uint(); __CPROVER_assume(v.n <= 3); v.d[0] = pick(); v.d[1] = pick(); v.d[2] = pick(); }
static bool vec_eq(const vec3 &a, const vec3 &b) { if (a.n != b.n) return false; for (unsigned i = 0; i < 3; i++) if (i < a.n && a.d[i]->rank != b.d[i]->rank) return false; return true; }
extern "C" void h_ordered_compare(void)
{
  any_children(); vec3 X, Y, Z; any_vec3(X); any_vec3(Y); any_vec3(Z);
  verif_may_throw = false;
  int xy = ordered_compare(X, Y), yx = ordered_compare(Y, X), yz = ordered_compare(Y, Z), xz = ordered_compare(X, Z);
  OBL("C02.ordered_compare.cmp.range", xy >= -1 && xy <= 1);
  OBL("C02.ordered_compare.cmp.zero_iff_elementwise_eq", (xy == 0) == vec_eq(X, Y));
  OBL("C02.ordered_compare.cmp.antisymmetric", xy == -yx);
  OBL("C02.ordered_compare.cmp.transitive", !(xy <= 0 && yz <= 0) || xz <= 0);
  REACHABLE("h_ordered_compare");
}
#endif
